/-
  C07 — Output is plain valid ECMAScript/TypeScript, or an error was reported.
  Theorems about the model: what replaces JSX is never itself a JSX node.  (That the printed text re-parses is
  supported by execution only: SWC's printer and parser are not modelled.)
-/
import VueJsx.Visitor
import VueJsx.Props.C20
import VueJsx.Props.C15

namespace VueJsx
open Text

/-- node kinds that are JSX syntax -/
def isJsxSyntax (k : K) : Bool :=
  match k with
  | .jsxElement | .jsxFragment | .jsxOpening | .jsxClosing | .jsxOpeningFrag | .jsxClosingFrag | .jsxAttr
  | .jsxExprContainer | .jsxEmpty | .jsxSpreadChild | .jsxMember | .jsxNsName | .jsxText => true
  | _ => false

/-- At an expression position every JSX element and fragment is REPLACED by its lowering. -/
theorem C07_expression_replaced (o : Opts) (env : Env) (as : List String) (ks : List Node) (st : St) :
    exprHook o env .normal (.mk .jsxElement as ks) st = trElement o env (.mk .jsxElement as ks) st
    ∧ exprHook o env .normal (.mk .jsxFragment as ks) st = trFragment o env (.mk .jsxFragment as ks) st := by
  simp [exprHook]

/-- The lowering of a fragment is a call (of the vnode factory), never a JSX node. -/
theorem C07_fragment_is_call (o : Opts) (env : Env) (n : Node) (st : St) :
    (trFragment o env n st).1.kind = .call ∨ (trFragment o env n st).1.kind = .ill := by
  unfold trFragment
  split
  · left; simp [nCall, Node.kind]
  · right; simp [Node.kind]

/-- The lowering of an element is a call (of the vnode factory or of withDirectives), never a JSX node. -/
theorem C07_element_is_call (o : Opts) (env : Env) (n : Node) (st : St) :
    (trElement o env n st).1.kind = .call ∨ (trElement o env n st).1.kind = .ill := by
  unfold trElement
  split
  · left
    simp only
    split <;> simp [nCall, Node.kind]
  · right; simp [Node.kind]

/-- every identifier registered for a vue import is an identifier node (holds initially, kept by `importFromVue`) -/
def ImportsAreIdents (st : St) : Prop := ∀ p ∈ st.imports, p.2.kind = .ident

theorem importFromVue_is_ident (st : St) (item : String) (h : ImportsAreIdents st) :
    (st.importFromVue item).1.kind = .ident := by
  unfold St.importFromVue
  split
  · rename_i p hp
    exact h p (List.mem_of_find?_eq_some hp)
  · simp [St.fresh, nIdent, Node.kind]

theorem mem_insertSorted (k : String) (v : Node) (l : List (String × Node)) (p : String × Node)
    (h : p ∈ insertSorted k v l) : p = (k, v) ∨ p ∈ l := by
  induction l with
  | nil => simp [insertSorted] at h; exact Or.inl h
  | cons x rest ih =>
    obtain ⟨k', v'⟩ := x
    simp only [insertSorted] at h
    split at h
    · simp at h
      rcases h with h | h | h
      · exact Or.inl h
      · exact Or.inr (by simp [h])
      · exact Or.inr (by simp [h])
    · simp at h
      rcases h with h | h
      · exact Or.inr (by simp [h])
      · rcases ih h with h | h
        · exact Or.inl h
        · exact Or.inr (by simp [h])

theorem importFromVue_keeps (st : St) (item : String) (h : ImportsAreIdents st) :
    ImportsAreIdents (st.importFromVue item).2 := by
  unfold St.importFromVue
  split
  · exact h
  · intro p hp
    simp only [St.fresh] at hp
    rcases mem_insertSorted _ _ _ _ hp with hp | hp
    · subst hp; simp [nIdent, Node.kind]
    · exact h p hp

/-- The tag expression of an identifier tag is a string, an identifier or a call — never JSX syntax. -/
theorem C07_ident_tag_not_jsx (env : Env) (as : List String) (ks : List Node) (st : St) (hinv : ImportsAreIdents st) :
    isJsxSyntax (transformTag env (.mk .ident as ks) st).1.kind = false := by
  unfold transformTag
  split
  · split
    · simp [nStr, Node.kind, isJsxSyntax]
    · split
      · rw [importFromVue_is_ident st _ hinv]; rfl
      · split
        · simp [nStr, Node.kind, isJsxSyntax]
        · split
          · simp [nCall, Node.kind, isJsxSyntax]
          · simp [nIdent, Node.kind, isJsxSyntax]
  · rename_i heq; simp at heq
  · rename_i heq; simp at heq
  · simp [Node.kind, isJsxSyntax]

/-- A member tag becomes a member expression, a namespaced tag a string literal. -/
theorem C07_member_and_namespaced_tags (env : Env) (as : List String) (ks : List Node) (a b : Node) (st : St) :
    (transformTag env (.mk .jsxNsName as [a, b]) st).1.kind = .str
    ∧ ((transformTag env (.mk .jsxMember as ks) st).1.kind = .member ∨ (transformTag env (.mk .jsxMember as ks) st).1 = .mk .jsxMember as ks) := by
  constructor
  · simp [transformTag, nStr, Node.kind]
  · simp only [transformTag]
    unfold jsxMemberToExpr
    split
    · left; simp [Node.kind]
    · right; rfl

mutual
/-- a well-formed member tag: `Identifier . name` or `(member tag) . name` -/
def WfMember : Node → Bool
  | .mk .jsxMember _ [obj, .mk .ident _ []] =>
    (match obj with
     | .mk .ident _ _ => true
     | .mk .jsxMember as ks => WfMember (.mk .jsxMember as ks)
     | _ => false)
  | _ => false
end

mutual
/-- no JSX syntax anywhere in the tree -/
def NoJsx : Node → Bool
  | .mk k _ ks => !isJsxSyntax k && NoJsxL ks
def NoJsxL : List Node → Bool
  | [] => true
  | n :: ns => NoJsx n && NoJsxL ns
end

/-- the property of a lowered member tag: the identifier name, or the computed string when it is not one -/
theorem memberProp_no_jsx (pas : List String) :
    NoJsx (match (Node.mk .ident pas [] : Node) with
      | .mk .ident (name :: _) _ => if isValidPropIdent name then Node.mk .ident pas [] else nComputed (nStr name)
      | p => p) = true := by
  cases pas with
  | nil => simp [NoJsx, NoJsxL, isJsxSyntax]
  | cons name rest =>
    simp only
    split <;> simp [NoJsx, NoJsxL, isJsxSyntax, nComputed, nStr]

/-- For EVERY well-formed member tag, of any depth, the lowered tag contains no JSX syntax at all. -/
theorem C07_member_tag_no_jsx : ∀ (m : Node), WfMember m = true → NoJsx (jsxMemberToExpr m) = true
  | .mk k as ks, h => by
    unfold WfMember at h
    split at h
    · rename_i as1 obj pas heq
      injection heq with hk ha hks
      subst hk hks
      have hp := memberProp_no_jsx pas
      split at h
      · rename_i ias iks
        unfold jsxMemberToExpr
        simp only
        split
        · simp only [NoJsx, NoJsxL, isJsxSyntax, Bool.not_false, Bool.true_and, Bool.and_true]; exact hp
        · simp only [NoJsx, NoJsxL, isJsxSyntax, Bool.not_false, Bool.true_and, Bool.and_true]; exact hp
        · rename_i hne; exact absurd rfl (hne _ _)
      · rename_i mas mks
        have ih := C07_member_tag_no_jsx (.mk .jsxMember mas mks) h
        unfold jsxMemberToExpr
        simp only [NoJsx, NoJsxL, isJsxSyntax, Bool.not_false, Bool.true_and, Bool.and_true, ih]
        exact hp
      · simp at h
    · simp at h

/-- Modifier keys are always printable: a string literal, or an identifier name that is a valid property identifier. -/
theorem C07_modifier_keys_printable (mods : List String) (q : Bool) (obj : Node) (h : transformModifiers mods q = some obj) :
    ∃ props, obj = nObject props ∧ ∀ p ∈ props, ∃ m, (p = nKV (nStr m) (nBool true)) ∨ (isValidPropIdent m = true ∧ p = nKV (nIdentName m) (nBool true)) := by
  unfold transformModifiers at h
  split at h
  · simp at h
  · simp only [Option.some.injEq] at h
    refine ⟨_, h.symm, ?_⟩
    intro p hp
    simp at hp
    obtain ⟨m, _, rfl⟩ := hp
    refine ⟨m, ?_⟩
    cases q with
    | true => left; simp
    | false =>
      cases hv : isValidPropIdent m with
      | true => right; simp [hv]
      | false => left; simp [hv]

/-- The pragma callee extracted from a comment is always ONE non-empty word (C15_scan_result_is_one_word). -/
theorem C07_pragma_callee_one_word (c name : List Char) (h : pragmaOfComment c = some name) :
    name ≠ [] ∧ ∀ x ∈ name, isUnicodeWs x = false :=
  C15_scan_result_is_one_word c name h

/-! ## No JSX in the output: every builder of the lowering preserves JSX-freeness -/

theorem NoJsxL_iff (l : List Node) : NoJsxL l = true ↔ ∀ x ∈ l, NoJsx x = true := by
  induction l with
  | nil => simp [NoJsxL]
  | cons a r ih => simp [NoJsxL, ih]

theorem NoJsxL_append (a b : List Node) : NoJsxL (a ++ b) = (NoJsxL a && NoJsxL b) := by
  induction a with
  | nil => simp [NoJsxL]
  | cons x r ih => simp [NoJsxL, ih, Bool.and_assoc]

theorem NoJsxL_map {α : Type} (f : α → Node) (l : List α) (h : ∀ x ∈ l, NoJsx (f x) = true) : NoJsxL (l.map f) = true := by
  rw [NoJsxL_iff]; intro y hy; simp only [List.mem_map] at hy; obtain ⟨x, hx, rfl⟩ := hy; exact h x hx

theorem NoJsx_kids {k : K} {as : List String} {ks : List Node} (h : NoJsx (.mk k as ks) = true) : NoJsxL ks = true := by
  simp only [NoJsx, Bool.and_eq_true] at h; exact h.2

theorem NoJsx_mk (k : K) (as : List String) (ks : List Node) (hk : isJsxSyntax k = false) (h : NoJsxL ks = true) :
    NoJsx (.mk k as ks) = true := by
  simp [NoJsx, hk, h]

/-! ### sub-terms of a JSX-free expression -/

theorem arrayElems_NoJsx (e : Node) (elems : List Node) (h : NoJsx e = true) (ha : arrayElems e = some elems) : NoJsxL elems = true := by
  unfold arrayElems at ha
  split at ha
  · injection ha with ha; subst ha
    have := NoJsx_kids h
    simp only [NoJsxL, Bool.and_true] at this
    exact NoJsx_kids this
  · simp at ha

theorem plainElem_NoJsx (elems : List Node) (i : Nat) (x : Node) (h : NoJsxL elems = true) (hp : plainElem elems i = some x) : NoJsx x = true := by
  unfold plainElem at hp
  split at hp
  · rename_i as e heq
    injection hp with hp; subst hp
    have hm : Node.mk .arg as [e] ∈ elems := List.mem_of_getElem? heq
    have := (NoJsxL_iff elems).mp h _ hm
    have := NoJsx_kids this
    simpa [NoJsxL] using this
  · simp at hp

/-- an attribute value as the visitor leaves it: absent, a string, or `{e}` with `e` already JSX-free
    (`a={}` is rejected by the parser) -/
def ValOk (v : Node) : Bool :=
  match v with
  | .mk .none _ _ => true
  | .mk .str _ [] => true
  | .mk .jsxExprContainer _ [e] => NoJsx e
  | .mk .jsxElement _ _ => true        -- an element written directly as the value (lowered by the caller, or ignored by a directive)
  | .mk .jsxFragment _ _ => true
  | _ => false

theorem containerExpr_NoJsx (v e : Node) (hv : ValOk v = true) (h : containerExpr v = some e) : NoJsx e = true := by
  unfold containerExpr at h
  split at h
  · split at h
    · simp at h
    · injection h with h; subst h
      unfold ValOk at hv
      split at hv <;> simp_all
  · simp at h

theorem transformModifiers_NoJsx (mods : List String) (q : Bool) (n : Node) (h : transformModifiers mods q = some n) : NoJsx n = true := by
  unfold transformModifiers at h
  split at h
  · simp at h
  · injection h with h; subst h
    apply NoJsx_mk _ _ _ rfl
    simp only [NoJsxL, Bool.and_true]
    apply NoJsx_mk _ _ _ rfl
    apply NoJsxL_map
    intro m _
    split <;> simp [nKV, nStr, nIdentName, nIdent, nBool, NoJsx, NoJsxL, isJsxSyntax]


def optOk (o : Option Node) : Bool := match o with | some n => NoJsx n | none => true

def DirOk (d : Dir) : Bool :=
  match d with
  | .normal _ a m v => optOk a && optOk m && NoJsx v
  | .text e => NoJsx e
  | .html e => NoJsx e
  | .vmodel a t m v => optOk a && optOk t && optOk m && NoJsx v
  | .slots e => optOk e

theorem optOk_transformModifiers (mods : Option (List String)) (q : Bool) : optOk (mods.bind (transformModifiers · q)) = true := by
  cases mods with
  | none => rfl
  | some m =>
    simp only [Option.bind]
    cases h : transformModifiers m q with
    | none => rfl
    | some n => exact transformModifiers_NoJsx m q n h

theorem NoJsx_consts : NoJsx nVoid0 = true ∧ NoJsx nNull = true ∧ NoJsx nEmptyIdent = true ∧ (∀ b, NoJsx (nBool b) = true)
    ∧ (∀ s, NoJsx (nStr s) = true) := by
  refine ⟨by decide, by decide, by decide, ?_, ?_⟩
  · intro b; simp [nBool, NoJsx, NoJsxL, isJsxSyntax]
  · intro s; simp [nStr, NoJsx, NoJsxL, isJsxSyntax]

theorem vHtmlOrText_NoJsx (w : String) (v : Node) (st : St) (hv : ValOk v = true) : NoJsx (vHtmlOrText w v st).1 = true := by
  unfold vHtmlOrText
  split
  · -- a string literal value
    unfold ValOk at hv
    split at hv <;> simp_all [NoJsx, NoJsxL, isJsxSyntax]
  · split
    · rename_i e he
      have hne := containerExpr_NoJsx v e hv he
      split
      · rename_i elems hel
        have hels := arrayElems_NoJsx e elems hne hel
        split
        · rename_i first hf
          exact plainElem_NoJsx elems 0 first hels hf
        · exact hne
      · exact hne
    · exact NoJsx_consts.2.2.2.1 true


@[simp] theorem optOk_some' (n : Node) : optOk (some n) = NoJsx n := rfl
@[simp] theorem optOk_none' : optOk none = true := rfl
@[simp] theorem optOk_tm (m : List String) (q : Bool) : optOk (transformModifiers m q) = true := by
  cases h : transformModifiers m q with
  | none => rfl
  | some n => exact transformModifiers_NoJsx m q n h
@[simp] theorem optOk_tm' (m : List String) (q : Bool) :
    (match transformModifiers m q with | some n => NoJsx n | none => true) = true := optOk_tm m q

set_option maxHeartbeats 2000000 in
theorem parseVModel_DirOk (v : Node) (c : Bool) (arg : Option Node) (r : List String) (st : St)
    (hv : ValOk v = true) (ha : optOk arg = true) : DirOk (parseVModel v c arg r st).1 = true := by
  have hc := NoJsx_consts
  unfold parseVModel
  simp only
  cases hce : containerExpr v with
  | none =>
    -- no expression: the placeholder identifier
    simp only
    have : arrayElems nEmptyIdent = none := by decide
    simp only [this]
    cases c <;> cases arg <;> simp_all [DirOk, optOk_transformModifiers, Option.isNone]
      <;> (try split) <;> (try simp_all [optOk_transformModifiers]) <;> (try split) <;> (try simp_all [optOk_transformModifiers])
  | some e =>
    have hne := containerExpr_NoJsx v e hv hce
    simp only
    cases hae : arrayElems e with
    | none =>
      simp only [DirOk, optOk_transformModifiers, hne, Bool.and_true]
      cases arg with
      | none => split <;> simp_all <;> (try split) <;> (try simp_all)
      | some a => split <;> simp_all <;> (try split) <;> (try simp_all)
    | some elems =>
      have hels := arrayElems_NoJsx e elems hne hae
      simp only
      have h0 : ∀ x, plainElem elems 0 = some x → NoJsx x = true := fun x hx => plainElem_NoJsx elems 0 x hels hx
      have h1 : ∀ x, plainElem elems 1 = some x → NoJsx x = true := fun x hx => plainElem_NoJsx elems 1 x hels hx
      cases hp0 : plainElem elems 0 <;> cases hp1 : plainElem elems 1 <;> (try simp only []) <;>
        (try (rename_i second; cases hs : arrayElems second)) <;> (try simp only []) <;>
        (try (cases hp2 : (plainElem elems 2).bind arrayElems)) <;> (try simp only []) <;>
        cases c <;> cases arg <;>
        (try simp_all [DirOk, optOk_transformModifiers, Option.isNone]) <;> (try split) <;> (try simp_all [optOk_transformModifiers])
        <;> (try split) <;> (try simp_all [optOk_transformModifiers])


theorem parseVSlots_DirOk (v : Node) (hv : ValOk v = true) : DirOk (parseVSlots v) = true := by
  unfold parseVSlots
  cases he : containerExpr v with
  | none => rfl
  | some e => simpa [DirOk] using containerExpr_NoJsx v e hv he

set_option maxHeartbeats 2000000 in
theorem parseDirective_DirOk (n : AttrName) (v : Node) (c : Bool) (st : St) (hv : ValOk v = true) :
    DirOk (parseDirective n v c st).1 = true := by
  have hc := NoJsx_consts
  unfold parseDirective
  simp only
  split
  · exact vHtmlOrText_NoJsx _ v st hv
  · split
    · exact vHtmlOrText_NoJsx _ v st hv
    · split
      · apply parseVModel_DirOk _ _ _ _ _ hv
        cases (dirNameParts n).2.1 <;> simp [Option.map, hc.2.2.2.2]
      · split
        · exact parseVSlots_DirOk v hv
        · -- an ordinary directive
          have harg : optOk ((dirNameParts n).2.1.map nStr) = true := by
            cases (dirNameParts n).2.1 <;> simp [Option.map, hc.2.2.2.2]
          cases hce : containerExpr v with
          | none =>
            simp only
            have hs : ∀ s, NoJsx (nStr s) = true := hc.2.2.2.2
            have hstr : ∀ as ks, ValOk (Node.mk K.str as ks) = true → NoJsx (Node.mk K.str as ks) = true := by
              intro as ks h
              unfold ValOk at h
              split at h <;> simp_all [NoJsx, NoJsxL, isJsxSyntax]
            cases hd : (dirNameParts n).2.1 <;> simp only [Option.map, DirOk] <;> (repeat' split) <;> (try simp_all [hs]) <;> (first | done | (rename_i h; rw [← h]; exact hs _) | (rename_i h _; rw [← h]; exact hs _))
          | some e =>
            have hne := containerExpr_NoJsx v e hv hce
            simp only
            cases hae : arrayElems e with
            | none =>
              cases hd : (dirNameParts n).2.1 <;> simp_all [DirOk, Option.map] <;> (try split) <;> (try simp_all)
            | some elems =>
              have hels := arrayElems_NoJsx e elems hne hae
              have h0 : ∀ x, plainElem elems 0 = some x → NoJsx x = true := fun x hx => plainElem_NoJsx elems 0 x hels hx
              have h1 : ∀ x, plainElem elems 1 = some x → NoJsx x = true := fun x hx => plainElem_NoJsx elems 1 x hels hx
              simp only
              cases hp0 : plainElem elems 0 <;> cases hp1 : plainElem elems 1 <;> (try simp only []) <;>
                (try (rename_i second; cases hs : arrayElems second)) <;> (try simp only []) <;>
                (try (cases hp2 : (plainElem elems 2).bind arrayElems)) <;> (try simp only []) <;>
                cases hd : (dirNameParts n).2.1 <;>
                (try simp_all [DirOk, Option.map, Option.isNone, Option.getD]) <;> (try split) <;> (try simp_all)


/-! ### JSX-freeness of the node builders (a simp set) -/
section builders
variable (a b c : Node) (xs ys : List Node) (s t : String) (n : Nat) (q : Bool)
@[simp] theorem nj_nil : NoJsxL [] = true := rfl
@[simp] theorem nj_cons : NoJsxL (a :: xs) = (NoJsx a && NoJsxL xs) := rfl
@[simp] theorem nj_append : NoJsxL (xs ++ ys) = (NoJsxL xs && NoJsxL ys) := NoJsxL_append xs ys
@[simp] theorem nj_none : NoJsx nNone = true := by decide
@[simp] theorem nj_null : NoJsx nNull = true := by decide
@[simp] theorem nj_void0 : NoJsx nVoid0 = true := by decide
@[simp] theorem nj_emptyIdent : NoJsx nEmptyIdent = true := by decide
@[simp] theorem nj_list : NoJsx (nList xs) = NoJsxL xs := by simp [nList, NoJsx, isJsxSyntax]
@[simp] theorem nj_stmts : NoJsx (nStmts xs) = NoJsxL xs := by simp [nStmts, NoJsx, isJsxSyntax]
@[simp] theorem nj_ident : NoJsx (nIdent s t) = true := by simp [nIdent, NoJsx, NoJsxL, isJsxSyntax]
@[simp] theorem nj_quoteIdent : NoJsx (nQuoteIdent s) = true := by simp [nQuoteIdent]
@[simp] theorem nj_identName : NoJsx (nIdentName s) = true := by simp [nIdentName]
@[simp] theorem nj_str : NoJsx (nStr s) = true := by simp [nStr, NoJsx, NoJsxL, isJsxSyntax]
@[simp] theorem nj_num : NoJsx (nNum n) = true := by simp [nNum, NoJsx, NoJsxL, isJsxSyntax]
@[simp] theorem nj_bool : NoJsx (nBool q) = true := by simp [nBool, NoJsx, NoJsxL, isJsxSyntax]
@[simp] theorem nj_arg : NoJsx (nArg a) = NoJsx a := by simp [nArg, NoJsx, NoJsxL, isJsxSyntax]
@[simp] theorem nj_spreadArg : NoJsx (nSpreadArg a) = NoJsx a := by simp [nSpreadArg, NoJsx, NoJsxL, isJsxSyntax]
@[simp] theorem nj_spreadElement : NoJsx (nSpreadElement a) = NoJsx a := by simp [nSpreadElement, NoJsx, NoJsxL, isJsxSyntax]
@[simp] theorem nj_array : NoJsx (nArray xs) = NoJsxL xs := by simp [nArray, NoJsx, NoJsxL, isJsxSyntax]
@[simp] theorem nj_object : NoJsx (nObject xs) = NoJsxL xs := by simp [nObject, NoJsx, NoJsxL, isJsxSyntax]
@[simp] theorem nj_kv : NoJsx (nKV a b) = (NoJsx a && NoJsx b) := by simp [nKV, NoJsx, NoJsxL, isJsxSyntax]
@[simp] theorem nj_call : NoJsx (nCall a xs) = (NoJsx a && NoJsxL xs) := by simp [nCall, NoJsx, NoJsxL, isJsxSyntax]
@[simp] theorem nj_arrow : NoJsx (nArrow xs a) = (NoJsxL xs && NoJsx a) := by simp [nArrow, NoJsx, NoJsxL, isJsxSyntax]
@[simp] theorem nj_block : NoJsx (nBlock xs) = NoJsxL xs := by simp [nBlock, NoJsx, NoJsxL, isJsxSyntax]
@[simp] theorem nj_return : NoJsx (nReturn a) = NoJsx a := by simp [nReturn, NoJsx, NoJsxL, isJsxSyntax]
@[simp] theorem nj_assignParen : NoJsx (nAssignParen a b) = (NoJsx a && NoJsx b) := by simp [nAssignParen, NoJsx, NoJsxL, isJsxSyntax]
@[simp] theorem nj_cond : NoJsx (nCond a b c) = (NoJsx a && NoJsx b && NoJsx c) := by simp [nCond, NoJsx, NoJsxL, isJsxSyntax, Bool.and_assoc]
@[simp] theorem nj_bin : NoJsx (nBin s a b) = (NoJsx a && NoJsx b) := by simp [nBin, NoJsx, NoJsxL, isJsxSyntax]
@[simp] theorem nj_unary : NoJsx (nUnary s a) = NoJsx a := by simp [nUnary, NoJsx, NoJsxL, isJsxSyntax]
@[simp] theorem nj_member : NoJsx (nMember a s) = NoJsx a := by simp [nMember, NoJsx, NoJsxL, isJsxSyntax]
@[simp] theorem nj_computed : NoJsx (nComputed a) = NoJsx a := by simp [nComputed, NoJsx, NoJsxL, isJsxSyntax]
@[simp] theorem nj_varDecl : NoJsx (nVarDecl s xs) = NoJsxL xs := by simp [nVarDecl, NoJsx, NoJsxL, isJsxSyntax]
@[simp] theorem nj_fnExpr : NoJsx (nFnExpr xs ys) = (NoJsxL xs && NoJsxL ys) := by simp [nFnExpr, NoJsx, NoJsxL, isJsxSyntax]
theorem nj_bindingIdent (h : NoJsx a = true) : NoJsx (nBindingIdent a) = true := by
  unfold nBindingIdent; split <;> simp_all [NoJsx, NoJsxL, isJsxSyntax]
theorem nj_declarator (h : NoJsx a = true) (hb : NoJsx b = true) : NoJsx (nDeclarator a b) = true := by
  simp [nDeclarator, NoJsx, NoJsxL, isJsxSyntax, nj_bindingIdent a h, hb]
end builders

/-! ### the visitor state holds no JSX -/

structure StOk (st : St) : Prop where
  imports : ∀ p ∈ st.imports, NoJsx p.2 = true
  ton : optOk st.transformOnHelper = true
  slotH : optOk st.slotHelper = true
  vars : NoJsxL st.injectingVars = true
  consts : NoJsxL st.injectingConsts = true

theorem fresh_ok (st : St) (nm : String) (h : StOk st) : NoJsx (st.fresh nm).1 = true ∧ StOk (st.fresh nm).2 := by
  refine ⟨by simp [St.fresh], ?_⟩
  exact ⟨h.imports, h.ton, h.slotH, h.vars, h.consts⟩

theorem err_ok (st : St) (m : String) (h : StOk st) : StOk (st.err m) := ⟨h.imports, h.ton, h.slotH, h.vars, h.consts⟩
theorem panic_ok (st : St) (m : String) (h : StOk st) : StOk (st.panic m) := by
  unfold St.panic; split
  · exact h
  · exact ⟨h.imports, h.ton, h.slotH, h.vars, h.consts⟩

theorem importFromVue_ok (st : St) (item : String) (h : StOk st) :
    NoJsx (st.importFromVue item).1 = true ∧ StOk (st.importFromVue item).2 := by
  unfold St.importFromVue
  split
  · rename_i p hp
    exact ⟨h.imports p (List.mem_of_find?_eq_some hp), h⟩
  · refine ⟨by simp [St.fresh], ?_⟩
    refine ⟨?_, h.ton, h.slotH, h.vars, h.consts⟩
    intro p hp
    simp only [St.fresh] at hp
    rcases mem_insertSorted _ _ _ _ hp with hp | hp
    · subst hp; simp
    · exact h.imports p hp


/-! ### attributes -/

theorem mergeInto_NoJsx (d v : Node) (hd : NoJsx d = true) (hv : NoJsx v = true) : NoJsx (mergeInto d v) = true := by
  unfold mergeInto
  split
  · simp only [NoJsx, NoJsxL, isJsxSyntax, Bool.not_false, Bool.true_and, Bool.and_true] at hd ⊢
    simp [NoJsxL_append, hd, hv]
  · simp [hd, hv]

theorem dedupeAdd_NoJsx (name : String) (prop value : Node) (hp : NoJsx prop = true) (hv : NoJsx value = true) :
    ∀ (l : List Node), NoJsxL l = true → NoJsxL (dedupeAdd name prop value l) = true
  | [], _ => by simp [dedupeAdd, hp]
  | d :: ds, h => by
    simp only [nj_cons, Bool.and_eq_true] at h
    unfold dedupeAdd
    split
    · rename_i das k kas kks dv
      split
      · split
        · have hd := h.1
          simp only [NoJsx, NoJsxL, isJsxSyntax, Bool.not_false, Bool.true_and, Bool.and_true, Bool.and_eq_true] at hd
          simp only [nj_cons, Bool.and_eq_true, h.2, and_true]
          simp only [NoJsx, NoJsxL, isJsxSyntax, Bool.not_false, Bool.true_and, Bool.and_true, Bool.and_eq_true]
          exact ⟨hd.1, mergeInto_NoJsx dv value hd.2 hv⟩
        · simp [h.1, h.2]
      · simp [h.1, dedupeAdd_NoJsx name prop value hp hv ds h.2]
    · simp [h.1, dedupeAdd_NoJsx name prop value hp hv ds h.2]

theorem dedupeProps_NoJsx (props : List Node) (h : NoJsxL props = true) : NoJsxL (dedupeProps props) = true := by
  unfold dedupeProps
  suffices hs : ∀ (ps acc : List Node), NoJsxL ps = true → NoJsxL acc = true →
      NoJsxL (ps.foldl (fun defined p =>
        match p with
        | .mk .kv _ [.mk .str (k :: _) _, v] => dedupeAdd k p v defined
        | p => defined ++ [p]) acc) = true from hs props [] h rfl
  intro ps
  induction ps with
  | nil => intro acc _ ha; exact ha
  | cons p rest ih =>
    intro acc hps ha
    simp only [nj_cons, Bool.and_eq_true] at hps
    simp only [List.foldl]
    apply ih _ hps.2
    split
    · rename_i as0 k ks0 kks v
      have hp := hps.1
      have hv : NoJsx v = true := by
        simp only [NoJsx, NoJsxL, isJsxSyntax, Bool.not_false, Bool.true_and, Bool.and_true, Bool.and_eq_true] at hp
        exact hp.2
      exact dedupeAdd_NoJsx k _ v hp hv acc ha
    · simp [ha, hps.1]


def dirTupleOk (d : String × Option Node × Option Node × Node) : Bool := optOk d.2.1 && optOk d.2.2.1 && NoJsx d.2.2.2

structure AccOk (acc : AttrAcc) : Prop where
  props : NoJsxL acc.props = true
  mergeArgs : NoJsxL acc.mergeArgs = true
  slots : optOk acc.slots = true
  dirs : ∀ d ∈ acc.directives, dirTupleOk d = true

theorem nj_modelListener (t : Node) (h : NoJsx t = true) : NoJsx (nModelListener t) = true := by
  simp [nModelListener, h, nj_bindingIdent]

theorem vmodelArgKind_ok (a : Option Node) (ha : optOk a = true) : NoJsx (vmodelArgKind a).2.2 = true := by
  unfold vmodelArgKind
  split
  · simp
  · simp
  · simp
  · rename_i e _ _; exact ha

theorem vmodelStepK_ok (c : Bool) (ak : Nat × String × Node) (t m : Option Node) (v : Node) (acc : AttrAcc)
    (hak : NoJsx ak.2.2 = true) (ht : optOk t = true) (hm : optOk m = true) (hv : NoJsx v = true) (hacc : AccOk acc) :
    AccOk (vmodelStepK c ak t m v acc) := by
  have hl := nj_modelListener v hv
  obtain ⟨hp, hma, hs, hd⟩ := hacc
  obtain ⟨n, s, e⟩ := ak
  simp only at hak
  have hdm : ∀ d ∈ acc.directives ++ [("model", t, m, v)], dirTupleOk d = true := by
    intro d hdm
    simp only [List.mem_append, List.mem_singleton] at hdm
    rcases hdm with hdm | rfl
    · exact hd d hdm
    · simp [dirTupleOk, ht, hm, hv]
  unfold vmodelStepK
  rcases n with _ | _ | n <;> cases c <;> cases m <;>
    (first
      | exact ⟨by simp_all, by simp_all, hs, by simpa using hdm⟩
      | exact ⟨by simp_all, by simp_all, hs, by simpa using hd⟩)

theorem vmodelStep_ok (o : Opts) (c : Bool) (a t m : Option Node) (v : Node) (acc : AttrAcc)
    (ha : optOk a = true) (ht : optOk t = true) (hm : optOk m = true) (hv : NoJsx v = true) (hacc : AccOk acc) :
    AccOk (vmodelStep o c a t m v acc) := by
  unfold vmodelStep
  exact vmodelStepK_ok c _ t m v acc (vmodelArgKind_ok a ha) ht hm hv hacc

/-- the value of a PLAIN attribute that was not lowered: absent, a string, or `{e}` with `e` JSX-free -/
def StrictValOk (v : Node) : Bool :=
  match v with
  | .mk .none _ _ => true
  | .mk .str _ [] => true
  | .mk .jsxExprContainer _ [e] => NoJsx e
  | _ => false

theorem attrValueExpr_ok (v : Node) (l : Option Node) (st : St) (hv : StrictValOk v = true ∨ ∃ e, l = some e) (hl : optOk l = true)
    (hst : StOk st) : NoJsx (attrValueExpr v l st).1 = true ∧ StOk (attrValueExpr v l st).2 := by
  unfold attrValueExpr
  split
  · exact ⟨hl, hst⟩
  · rcases hv with hv | ⟨e, he⟩
    · unfold StrictValOk at hv
      split
      · exact ⟨by simp, hst⟩
      · exact ⟨by simp, hst⟩
      · rename_i e
        refine ⟨?_, hst⟩
        split at hv <;> simp_all [NoJsx, NoJsxL, isJsxSyntax]
      · refine ⟨?_, panic_ok _ _ hst⟩
        split at hv <;> simp_all [NoJsx, NoJsxL, isJsxSyntax]
    · simp_all

/-- an attribute as the fold meets it: a directive with an admissible value; a plain attribute with a strict value, or
    with the lowered value of the element written as its value; a spread of a JSX-free expression; anything else (ill-formed) -/
def AttrOk (a : Node) (l : Option Node) : Prop :=
  (∃ as nameN valueN, a = .mk .jsxAttr as [nameN, valueN] ∧ optOk l = true ∧
      ((isDirectiveAttrName (attrNameOf nameN) = true ∧ l = none ∧ ValOk valueN = true)
       ∨ (isDirectiveAttrName (attrNameOf nameN) = false ∧ l = none ∧ StrictValOk valueN = true)
       ∨ (isDirectiveAttrName (attrNameOf nameN) = false ∧ ∃ e, l = some e)))
  ∨ (∃ as e, a = .mk .spreadElement as [e] ∧ NoJsx e = true)
  ∨ (∀ as n v, a ≠ .mk .jsxAttr as [n, v]) ∧ (∀ as e, a ≠ .mk .spreadElement as [e])

/-- the node-carrying fields of the state -/
def St.nodes (st : St) : List (String × Node) × Option Node × Option Node × List Node × List Node :=
  (st.imports, st.transformOnHelper, st.slotHelper, st.injectingVars, st.injectingConsts)

theorem StOk_of_nodes {a b : St} (h : a.nodes = b.nodes) (hb : StOk b) : StOk a := by
  simp only [St.nodes, Prod.mk.injEq] at h
  obtain ⟨h1, h2, h3, h4, h5⟩ := h
  exact ⟨h1 ▸ hb.imports, h2 ▸ hb.ton, h3 ▸ hb.slotH, h4 ▸ hb.vars, h5 ▸ hb.consts⟩

@[simp] theorem err_nodes (st : St) (m : String) : (st.err m).nodes = st.nodes := rfl

theorem vHtmlOrText_nodes (w : String) (v : Node) (st : St) : (vHtmlOrText w v st).2.nodes = st.nodes := by
  unfold vHtmlOrText
  split
  · rfl
  · split
    · split
      · split <;> rfl
      · rfl
    · rfl

theorem parseVModel_nodes (v : Node) (c : Bool) (a : Option Node) (r : List String) (st : St) :
    (parseVModel v c a r st).2.nodes = st.nodes := by
  unfold parseVModel
  simp only
  split <;> (repeat' split) <;> simp_all [St.nodes, St.err]

theorem parseDirective_nodes (n : AttrName) (v : Node) (c : Bool) (st : St) : (parseDirective n v c st).2.nodes = st.nodes := by
  unfold parseDirective
  simp only
  split
  · exact vHtmlOrText_nodes _ _ _
  · split
    · exact vHtmlOrText_nodes _ _ _
    · split
      · exact parseVModel_nodes _ _ _ _ _
      · split <;> rfl

theorem coverHyd_fields (c : Bool) (nm : String) (acc : AttrAcc) :
    (coverStep c nm (hydrationStep c nm acc)).props = acc.props ∧ (coverStep c nm (hydrationStep c nm acc)).mergeArgs = acc.mergeArgs
    ∧ (coverStep c nm (hydrationStep c nm acc)).slots = acc.slots ∧ (coverStep c nm (hydrationStep c nm acc)).directives = acc.directives := by
  unfold coverStep hydrationStep
  (repeat' split) <;> simp

theorem plainAttrFlags_fields (c : Bool) (nm : String) (v : Node) (t : Bool) (acc : AttrAcc) :
    (plainAttrFlags c nm v t acc).props = acc.props ∧ (plainAttrFlags c nm v t acc).mergeArgs = acc.mergeArgs
    ∧ (plainAttrFlags c nm v t acc).slots = acc.slots ∧ (plainAttrFlags c nm v t acc).directives = acc.directives := by
  unfold plainAttrFlags
  by_cases ht : t = true
  · simp [ht]
  · by_cases hr : (nm == "ref") = true
    · simp [ht, hr]
    · by_cases hcst : (!(if isNone v then false else isAttrValueConstant v)) = true
      · simp only [ht, hr, hcst, Bool.false_eq_true, if_false, if_true]
        exact coverHyd_fields c nm acc
      · simp only [ht, hr, hcst, Bool.false_eq_true, if_false]
        simp

theorem AccOk_of_fields {a b : AttrAcc} (h1 : a.props = b.props) (h2 : a.mergeArgs = b.mergeArgs) (h3 : a.slots = b.slots)
    (h4 : a.directives = b.directives) (hb : AccOk b) : AccOk a :=
  ⟨h1 ▸ hb.props, h2 ▸ hb.mergeArgs, h3 ▸ hb.slots, h4 ▸ hb.dirs⟩


theorem plainPart_ok (o : Opts) (c : Bool) (attrName : String) (valueN attrValue : Node) (acc : AttrAcc) (st : St)
    (hv : NoJsx attrValue = true) (hacc : AccOk acc) (hst : StOk st) :
    let r :=
      (let isTransformOn := o.transformOn && (attrName == "on" || attrName == "nativeOn")
       let acc := plainAttrFlags c attrName valueN isTransformOn acc
       if isTransformOn then
         let (helper, st) :=
           (match st.transformOnHelper with
            | some h => (h, st)
            | none => let (h, st) := st.fresh "_transformOn"; (h, { st with transformOnHelper := some h }))
         let acc :=
           if !acc.props.isEmpty then
             { acc with mergeArgs := acc.mergeArgs ++ [nObject (if o.mergeProps then dedupeProps acc.props else acc.props)],
                        props := [] }
           else acc
         (({ acc with mergeArgs := acc.mergeArgs ++ [nCall helper [nArg attrValue]] } : AttrAcc), st)
       else (({ acc with props := acc.props ++ [nKV (nStr attrName) attrValue] } : AttrAcc), st))
    AccOk r.1 ∧ StOk r.2 := by
  have hpf : ∀ t, AccOk (plainAttrFlags c attrName valueN t acc) := by
    intro t
    obtain ⟨f1, f2, f3, f4⟩ := plainAttrFlags_fields c attrName valueN t acc
    exact AccOk_of_fields f1 f2 f3 f4 hacc
  simp only
  by_cases ht : (o.transformOn && (attrName == "on" || attrName == "nativeOn")) = true
  · simp only [ht, if_true]
    have hacc' := hpf true
    generalize plainAttrFlags c attrName valueN true acc = acc1 at hacc' ⊢
    have hdd : NoJsxL (if o.mergeProps = true then dedupeProps acc1.props else acc1.props) = true := by
      split
      · exact dedupeProps_NoJsx _ hacc'.props
      · exact hacc'.props
    cases hh : st.transformOnHelper with
    | some h =>
      have hh' : NoJsx h = true := by have := hst.ton; rw [hh] at this; exact this
      simp only
      refine ⟨?_, hst⟩
      by_cases he : (!acc1.props.isEmpty) = true
      · simp only [he, if_true]
        exact ⟨rfl, by simp [hacc'.mergeArgs, hdd, hh', hv], hacc'.slots, hacc'.dirs⟩
      · simp only [he]
        exact ⟨hacc'.props, by simp [hacc'.mergeArgs, hh', hv], hacc'.slots, hacc'.dirs⟩
    | none =>
      simp only
      refine ⟨?_, ⟨hst.imports, by simp [St.fresh], hst.slotH, hst.vars, hst.consts⟩⟩
      by_cases he : (!acc1.props.isEmpty) = true
      · simp only [he, if_true]
        exact ⟨rfl, by simp [hacc'.mergeArgs, hdd, hv, St.fresh], hacc'.slots, hacc'.dirs⟩
      · simp only [he]
        exact ⟨hacc'.props, by simp [hacc'.mergeArgs, hv, St.fresh], hacc'.slots, hacc'.dirs⟩
  · have ht' : (o.transformOn && (attrName == "on" || attrName == "nativeOn")) = false := by simpa using ht
    simp only [ht', Bool.false_eq_true, if_false]
    have hacc' := hpf false
    generalize plainAttrFlags c attrName valueN false acc = acc1 at hacc' ⊢
    exact ⟨⟨by simp [hacc'.props, hv], hacc'.mergeArgs, hacc'.slots, hacc'.dirs⟩, hst⟩


theorem attrStep_ok (o : Opts) (c : Bool) (a : Node) (l : Option Node) (acc : AttrAcc) (st : St)
    (ha : AttrOk a l) (hacc : AccOk acc) (hst : StOk st) :
    AccOk (attrStep o c a l acc st).1 ∧ StOk (attrStep o c a l acc st).2 := by
  unfold attrStep
  split
  · -- an attribute
    rename_i as nameN valueN
    have hform : optOk l = true ∧
        ((isDirectiveAttrName (attrNameOf nameN) = true ∧ l = none ∧ ValOk valueN = true)
         ∨ (isDirectiveAttrName (attrNameOf nameN) = false ∧ l = none ∧ StrictValOk valueN = true)
         ∨ (isDirectiveAttrName (attrNameOf nameN) = false ∧ ∃ e, l = some e)) := by
      rcases ha with ⟨as', n', v', heq, h1, h2⟩ | ⟨as', e, heq, _⟩ | ⟨h1, _⟩
      · injection heq with _ _ hk
        simp only [List.cons.injEq, and_true] at hk
        obtain ⟨rfl, rfl⟩ := hk
        exact ⟨h1, h2⟩
      · injection heq with hk; cases hk
      · exact absurd rfl (h1 _ _ _)
    simp only
    split
    · -- a directive
      rename_i hdir
      have hval : ValOk valueN = true := by
        rcases hform.2 with ⟨_, _, h⟩ | ⟨h, _⟩ | ⟨h, _⟩
        · exact h
        · rw [hdir] at h; cases h
        · rw [hdir] at h; cases h
      have hd := parseDirective_DirOk (attrNameOf nameN) valueN c st hval
      have hst' : StOk (parseDirective (attrNameOf nameN) valueN c st).2 := StOk_of_nodes (parseDirective_nodes _ _ _ _) hst
      split
      · rename_i n arg mods v heq
        rw [heq] at hd
        simp only [DirOk, Bool.and_eq_true] at hd
        refine ⟨⟨hacc.props, hacc.mergeArgs, hacc.slots, ?_⟩, hst'⟩
        intro d hdm
        simp only [List.mem_append, List.mem_singleton] at hdm
        rcases hdm with hdm | rfl
        · exact hacc.dirs d hdm
        · simp [dirTupleOk, hd.1.1, hd.1.2, hd.2]
      · rename_i e heq
        rw [heq] at hd
        exact ⟨⟨by simp [hacc.props, (show NoJsx e = true from hd)], hacc.mergeArgs, hacc.slots, hacc.dirs⟩, hst'⟩
      · rename_i e heq
        rw [heq] at hd
        exact ⟨⟨by simp [hacc.props, (show NoJsx e = true from hd)], hacc.mergeArgs, hacc.slots, hacc.dirs⟩, hst'⟩
      · rename_i arg targ mods v heq
        rw [heq] at hd
        simp only [DirOk, Bool.and_eq_true] at hd
        exact ⟨vmodelStep_ok o c arg targ mods v acc hd.1.1.1 hd.1.1.2 hd.1.2 hd.2 hacc, hst'⟩
      · rename_i e heq
        rw [heq] at hd
        exact ⟨⟨hacc.props, hacc.mergeArgs, hd, hacc.dirs⟩, hst'⟩
    · -- a plain attribute
      rename_i hnd
      have hav := attrValueExpr_ok valueN l st (by
        rcases hform.2 with ⟨h, _⟩ | ⟨_, _, h⟩ | ⟨_, e, he⟩
        · exact absurd h hnd
        · exact Or.inl h
        · exact Or.inr ⟨e, he⟩) hform.1 hst
      exact plainPart_ok o c _ valueN _ acc _ hav.1 hacc hav.2
  · -- a spread
    rename_i as e
    have he : NoJsx e = true := by
      rcases ha with ⟨as', n', v', heq, _⟩ | ⟨as', e', heq, h⟩ | ⟨_, h2⟩
      · injection heq with hk; cases hk
      · injection heq with _ _ hk
        simp only [List.cons.injEq, and_true] at hk
        subst hk; exact h
      · exact absurd rfl (h2 _ _)
    simp only
    have hdd := dedupeProps_NoJsx _ hacc.props
    have hop : ∀ (oas las : List String) (ops : List Node), NoJsx (.mk .object oas [.mk .list las ops]) = true → NoJsxL ops = true := by
      intro _ _ _ h; simpa [NoJsx, NoJsxL, isJsxSyntax] using h
    split <;> split <;> (try split) <;> (try (have hops := hop _ _ _ he)) <;>
      (first
        | exact ⟨⟨by simp_all [hacc.props, NoJsx_kids], by simp_all [hacc.mergeArgs], hacc.slots, hacc.dirs⟩, hst⟩
        | (refine ⟨⟨?_, ?_, hacc.slots, hacc.dirs⟩, hst⟩ <;> simp_all [hacc.props, hacc.mergeArgs, NoJsx, NoJsxL, isJsxSyntax]))
  · exact ⟨hacc, panic_ok _ _ hst⟩


/-! ### element-level builders -/

theorem assembleProps_ok (o : Opts) (props mergeArgs : List Node) (st : St) (hp : NoJsxL props = true) (hm : NoJsxL mergeArgs = true)
    (hst : StOk st) : NoJsx (assembleProps o props mergeArgs st).1 = true ∧ StOk (assembleProps o props mergeArgs st).2 := by
  have hdd : NoJsxL (if o.mergeProps = true then dedupeProps props else props) = true := by
    split
    · exact dedupeProps_NoJsx _ hp
    · exact hp
  unfold assembleProps
  split
  · simp only
    have hma : NoJsxL (if (!props.isEmpty) = true then mergeArgs ++ [nObject (if o.mergeProps = true then dedupeProps props else props)] else mergeArgs) = true := by
      split
      · simp [hm, hdd]
      · exact hm
    generalize (if (!props.isEmpty) = true then mergeArgs ++ [nObject (if o.mergeProps = true then dedupeProps props else props)] else mergeArgs) = ma at hma ⊢
    split
    · rename_i e
      simp only [nj_cons, nj_nil, Bool.and_true] at hma
      exact ⟨hma, hst⟩
    · have hi := importFromVue_ok st "mergeProps" hst
      refine ⟨?_, hi.2⟩
      simp only [nj_call, hi.1, Bool.true_and]
      apply NoJsxL_map
      intro x hx
      simpa using (NoJsxL_iff ma).mp hma x hx
  · split
    · split
      · rename_i as e
        simp only [nj_cons, nj_nil, Bool.and_true] at hp
        have := NoJsx_kids hp
        simp only [nj_cons, nj_nil, Bool.and_true] at this
        exact ⟨this, hst⟩
      · exact ⟨by simp [hdd], hst⟩
    · exact ⟨by simp, hst⟩

theorem getPragma_ok (o : Opts) (st : St) (hst : StOk st) : NoJsx (getPragma o st).1 = true ∧ StOk (getPragma o st).2 := by
  unfold getPragma
  split
  · split
    · exact ⟨by simp, hst⟩
    · exact importFromVue_ok _ _ (err_ok st _ hst)
  · exact importFromVue_ok st _ hst

/-- a tag name as the parser produces it -/
def TagOk (n : Node) : Bool :=
  match n with
  | .mk .ident (_ :: _ :: _) _ => true
  | .mk .jsxMember as ks => WfMember (.mk .jsxMember as ks)
  | .mk .jsxNsName _ [_, _] => true
  | _ => false

theorem transformTag_ok (env : Env) (n : Node) (st : St) (hn : TagOk n = true) (hst : StOk st) :
    NoJsx (transformTag env n st).1 = true ∧ StOk (transformTag env n st).2 := by
  unfold transformTag
  split
  · split
    · exact ⟨by simp, hst⟩
    · split
      · exact importFromVue_ok st _ hst
      · split
        · exact ⟨by simp, hst⟩
        · split
          · have hi := importFromVue_ok st "resolveComponent" hst
            exact ⟨by simp [hi.1], hi.2⟩
          · exact ⟨by simp, hst⟩
  · rename_i as ks
    refine ⟨C07_member_tag_no_jsx _ (by simpa [TagOk] using hn), ?_⟩
    rcases memberRootCheck_cases (.mk .jsxMember as ks) st with h | h <;> rw [h]
    · exact hst
    · exact err_ok _ _ hst
  · exact ⟨by simp, hst⟩
  · rename_i h1 h2 h3
    exfalso
    unfold TagOk at hn
    split at hn
    · exact h1 _ _ _ _ rfl
    · exact h2 _ _ rfl
    · exact h3 _ _ _ rfl
    · simp at hn

theorem genSlotIdent_ok (st : St) (hst : StOk st) : NoJsx (genSlotIdent st).1 = true ∧ StOk (genSlotIdent st).2 := by
  unfold genSlotIdent
  simp only [St.fresh]
  refine ⟨by simp, ⟨hst.imports, hst.ton, hst.slotH, ?_, hst.consts⟩⟩
  simp [hst.vars, nj_declarator]


theorem foldl_inv {α : Type} (P : α × St → Prop) (f : α × St → Node → α × St)
    (hf : ∀ acc e, P acc → NoJsx e = true → P (f acc e)) :
    ∀ (elems : List Node) (acc : α × St), P acc → NoJsxL elems = true → P (elems.foldl f acc)
  | [], acc, h, _ => h
  | e :: rest, acc, h, he => by
    simp only [nj_cons, Bool.and_eq_true] at he
    simp only [List.foldl]
    exact foldl_inv P f hf rest _ (hf acc e h he.1) he.2

theorem buildIife_ok (elems : List Node) (st : St) (he : NoJsxL elems = true) (hst : StOk st) :
    NoJsxL (buildIife elems st).1 = true ∧ StOk (buildIife elems st).2 := by
  unfold buildIife
  split
  · exact ⟨he, hst⟩
  · apply foldl_inv (fun (acc : List Node × St) => NoJsxL acc.1 = true ∧ StOk acc.2) _ _ elems _ _ he
    · intro acc e hacc hen
      obtain ⟨out, st'⟩ := acc
      simp only at hacc ⊢
      split
      · split
        · simp only [St.fresh]
          refine ⟨by simp [hacc.1], ⟨hacc.2.imports, hacc.2.ton, hacc.2.slotH, hacc.2.vars, ?_⟩⟩
          simp only [nj_append, hacc.2.consts, Bool.true_and, nj_cons, nj_nil, Bool.and_true]
          apply nj_declarator _ _ (by simp)
          simp only [nj_call, nj_fnExpr, nj_nil, nj_cons, nj_return, Bool.and_true, Bool.true_and]
          simp [NoJsx, NoJsxL, isJsxSyntax] at hen ⊢
          exact hen
        · exact ⟨by simp [hacc.1, hen], hacc.2⟩
      · exact ⟨by simp [hacc.1, hen], hacc.2⟩
    · exact ⟨rfl, ⟨hst.imports, hst.ton, hst.slotH, hst.vars, hst.consts⟩⟩

theorem slotProps_NoJsx (slots : Option Node) (hs : optOk slots = true) : NoJsxL (slotProps slots) = true := by
  unfold slotProps
  split
  · rename_i as las sp; simpa [optOk, NoJsx, NoJsxL, isJsxSyntax] using hs
  · rename_i e _; have hne : NoJsx e = true := hs; simp [hne]
  · rfl

theorem wrapChildren_NoJsx (o : Opts) (elems : List Node) (f : Nat) (slots : Option Node) (he : NoJsxL elems = true)
    (hs : optOk slots = true) : NoJsx (wrapChildren o elems f slots) = true := by
  unfold wrapChildren
  have hsp := slotProps_NoJsx slots hs
  simp only
  split <;> simp_all [NoJsxL_append]


theorem slotHelper_ok (st : St) (hst : StOk st) :
    let r := (match st.slotHelper with
      | some h => (h, st)
      | none => let (h, st) := st.fresh "_isSlot"; (h, { st with slotHelper := some h }))
    NoJsx r.1 = true ∧ StOk r.2 := by
  cases hh : st.slotHelper with
  | some h =>
    have : NoJsx h = true := by have := hst.slotH; rw [hh] at this; exact this
    exact ⟨this, hst⟩
  | none =>
    simp only [St.fresh]
    exact ⟨by simp, ⟨hst.imports, hst.ton, by simp, hst.vars, hst.consts⟩⟩

theorem argKids_NoJsx (as : List String) (e : Node) (h : NoJsxL [Node.mk .arg as [e]] = true) : NoJsx e = true := by
  simpa [NoJsx, NoJsxL, isJsxSyntax] using h

theorem finishChildren_ok (o : Opts) (elems : List Node) (c : Bool) (slots : Option Node) (f : Nat) (st : St)
    (he : NoJsxL elems = true) (hs : optOk slots = true) (hst : StOk st) :
    NoJsx (finishChildren o elems c slots f st).1 = true ∧ StOk (finishChildren o elems c slots f st).2 := by
  unfold finishChildren
  split
  · -- no children
    refine ⟨?_, hst⟩
    split
    · exact hs
    · simp
  · -- a sole plain child
    rename_i as e
    have hne := argKids_NoJsx as e he
    split
    · -- an identifier
      split
      · have hb := buildIife_ok [Node.mk .arg as [Node.mk .ident _ _]] st he hst
        simp only
        split
        · have hw := wrapChildren_NoJsx o _ f slots hb.1 hs
          cases hsl : (buildIife [Node.mk .arg as [Node.mk .ident _ _]] st).2.slotHelper with
          | some h =>
            have hh : NoJsx h = true := by have := hb.2.slotH; rw [hsl] at this; exact this
            simp only
            exact ⟨by simp [hh, hne, hw], hb.2⟩
          | none =>
            simp only [St.fresh]
            exact ⟨by simp [hne, hw], ⟨hb.2.imports, hb.2.ton, by simp, hb.2.vars, hb.2.consts⟩⟩
        · exact ⟨wrapChildren_NoJsx o _ f slots hb.1 hs, hb.2⟩
      · exact ⟨by simpa using he, hst⟩
    · -- a call
      split
      · split
        · simp only
          have hg := genSlotIdent_ok st hst
          cases hsl : (genSlotIdent st).2.slotHelper with
          | some h =>
            have hh : NoJsx h = true := by have := hg.2.slotH; rw [hsl] at this; exact this
            simp only
            have hb := buildIife_ok [nArg (genSlotIdent st).1] (genSlotIdent st).2 (by simp [hg.1]) hg.2
            exact ⟨by simp [hh, hg.1, hne, wrapChildren_NoJsx o _ f slots hb.1 hs], hb.2⟩
          | none =>
            simp only
            have hf := fresh_ok (genSlotIdent st).2 "_isSlot" hg.2
            have hst2 : StOk { ((genSlotIdent st).2.fresh "_isSlot").2 with slotHelper := some ((genSlotIdent st).2.fresh "_isSlot").1 } :=
              ⟨hf.2.imports, hf.2.ton, hf.1, hf.2.vars, hf.2.consts⟩
            have hb := buildIife_ok [nArg (genSlotIdent st).1] _ (by simp [hg.1]) hst2
            exact ⟨by simp [hf.1, hg.1, hne, wrapChildren_NoJsx o _ f slots hb.1 hs], hb.2⟩
        · exact ⟨wrapChildren_NoJsx o _ f slots he hs, hst⟩
      · split
        · exact ⟨wrapChildren_NoJsx o _ f slots he hs, hst⟩
        · exact ⟨by simpa using he, hst⟩
    · exact ⟨by simp [hne, slotProps_NoJsx slots hs], hst⟩
    · exact ⟨by simp [hne, slotProps_NoJsx slots hs], hst⟩
    · -- an object literal: its entries, the `v-slots` entries (plus the hint)
      rename_i oas las props
      have hp : NoJsxL props = true := by simpa [NoJsx, NoJsxL, isJsxSyntax] using hne
      have hsp := slotProps_NoJsx slots hs
      refine ⟨?_, hst⟩
      split <;> simp [hp, hsp, NoJsxL_append]
    · split
      · exact ⟨wrapChildren_NoJsx o _ f slots he hs, hst⟩
      · exact ⟨by simpa using he, hst⟩
  · split
    · exact ⟨wrapChildren_NoJsx o _ f slots he hs, hst⟩
    · exact ⟨by simpa using he, hst⟩

theorem ite_ok {c : Prop} [Decidable c] (x y : Node × St) (hx : NoJsx x.1 = true ∧ StOk x.2) (hy : NoJsx y.1 = true ∧ StOk y.2) :
    NoJsx (if c then x else y).1 = true ∧ StOk (if c then x else y).2 := by
  split <;> assumption

theorem resolveDirective_ok (n : String) (t : Node) (a : List Node) (st : St) (hst : StOk st) :
    NoJsx (resolveDirective n t a st).1 = true ∧ StOk (resolveDirective n t a st).2 := by
  have hi := fun item => importFromVue_ok st item hst
  unfold resolveDirective
  split
  · exact hi _
  · split
    · simp only
      apply ite_ok _ _ (hi _)
      apply ite_ok _ _ (hi _)
      split
      · apply ite_ok _ _ (hi _)
        apply ite_ok _ _ (hi _)
        exact hi _
      · exact hi _
      · exact hi _
    · exact ⟨by simp [(hi "resolveDirective").1], (hi "resolveDirective").2⟩

theorem dirEntries_ok (t : Node) (a : List Node) : ∀ (ds : List (String × Option Node × Option Node × Node)) (st : St),
    (∀ d ∈ ds, dirTupleOk d = true) → StOk st → NoJsxL (dirEntries t a ds st).1 = true ∧ StOk (dirEntries t a ds st).2
  | [], st, _, hst => by simp [dirEntries, hst]
  | (n, arg, m, v) :: rest, st, hd, hst => by
    have h0 := hd (n, arg, m, v) (by simp)
    simp only [dirTupleOk, Bool.and_eq_true] at h0
    have hr := resolveDirective_ok n t a st hst
    have ih := dirEntries_ok t a rest (resolveDirective n t a st).2 (fun d hdm => hd d (by simp [hdm])) hr.2
    simp only [dirEntries]
    refine ⟨?_, ih.2⟩
    simp only [nj_cons, nj_arg, nj_array, nj_append, nj_nil, Bool.and_true, hr.1, h0.2, ih.1, Bool.true_and]
    cases arg <;> cases m <;> simp_all


/-! ### the lowering of a prepared element is JSX-free -/

mutual
/-- a JSX element / fragment whose embedded expressions are already JSX-free: what the traversal hands to the lowering -/
def PrepEl : Node → Bool
  | .mk .jsxElement _ [.mk .jsxOpening _ [nameN, .mk .list _ attrs, _], .mk .list _ children, _] =>
    TagOk nameN && PrepAttrs attrs && PrepKids children
  | .mk .jsxFragment _ [_, .mk .list _ children, _] => PrepKids children
  | _ => false
def PrepAttrs : List Node → Bool
  | [] => true
  | a :: rest => PrepAttr a && PrepAttrs rest
def PrepAttr : Node → Bool
  | .mk .jsxAttr _ [nameN, v] =>
    if isDirectiveAttrName (attrNameOf nameN) then ValOk v
    else
      match v with
      | .mk .jsxElement as ks => PrepEl (.mk .jsxElement as ks)
      | .mk .jsxFragment as ks => PrepEl (.mk .jsxFragment as ks)
      | v => StrictValOk v
  | .mk .spreadElement _ [e] => NoJsx e
  | _ => false
def PrepKids : List Node → Bool
  | [] => true
  | c :: rest => PrepKid c && PrepKids rest
def PrepKid : Node → Bool
  | .mk .jsxText _ _ => true
  | .mk .jsxExprContainer _ [e] => (match e with | .mk .jsxEmpty _ _ => true | e => NoJsx e)
  | .mk .jsxSpreadChild _ [e] => NoJsx e
  | .mk .jsxElement as ks => PrepEl (.mk .jsxElement as ks)
  | .mk .jsxFragment as ks => PrepEl (.mk .jsxFragment as ks)
  | _ => false
end


theorem pushFlag_ok (o : Opts) (st : St) (h : StOk st) : StOk (pushFlag o st) := by
  unfold pushFlag; split
  · exact ⟨h.imports, h.ton, h.slotH, h.vars, h.consts⟩
  · exact h

theorem popFlag_ok (o : Opts) (st : St) (h : StOk st) : StOk (popFlag o st).2 := by
  unfold popFlag; split
  · split
    · exact h
    · exact ⟨h.imports, h.ton, h.slotH, h.vars, h.consts⟩
  · exact h

theorem stackFill_ok (st : St) (h : StOk st) : StOk (stackFill st) := ⟨h.imports, h.ton, h.slotH, h.vars, h.consts⟩

structure ArOk (ar : AttrsResult) : Prop where
  attrs : NoJsx ar.attrs = true
  slots : optOk ar.slots = true
  dirs : ∀ d ∈ ar.directives, dirTupleOk d = true

/-- the lowered value computed for an attribute (`trAttrs`' first half), see `lowerOf` in C13 -/
theorem AttrOk_of_Prep (a : Node) (l : Option Node) (hp : PrepAttr a = true)
    (hl : (∃ as nameN eas eks, a = .mk .jsxAttr as [nameN, .mk .jsxElement eas eks] ∧ isDirectiveAttrName (attrNameOf nameN) = false ∧ ∃ e, l = some e ∧ NoJsx e = true)
        ∨ (∃ as nameN eas eks, a = .mk .jsxAttr as [nameN, .mk .jsxFragment eas eks] ∧ isDirectiveAttrName (attrNameOf nameN) = false ∧ ∃ e, l = some e ∧ NoJsx e = true)
        ∨ (l = none ∧ (∀ as nameN eas eks, a = .mk .jsxAttr as [nameN, .mk .jsxElement eas eks] → isDirectiveAttrName (attrNameOf nameN) = true)
                    ∧ (∀ as nameN eas eks, a = .mk .jsxAttr as [nameN, .mk .jsxFragment eas eks] → isDirectiveAttrName (attrNameOf nameN) = true))) :
    AttrOk a l := by
  rcases hl with ⟨as, nameN, eas, eks, rfl, hnd, e, rfl, he⟩ | ⟨as, nameN, eas, eks, rfl, hnd, e, rfl, he⟩ | ⟨rfl, h1, h2⟩
  · exact Or.inl ⟨as, nameN, _, rfl, he, Or.inr (Or.inr ⟨hnd, e, rfl⟩)⟩
  · exact Or.inl ⟨as, nameN, _, rfl, he, Or.inr (Or.inr ⟨hnd, e, rfl⟩)⟩
  · unfold PrepAttr at hp
    split at hp
    · rename_i as nameN v
      refine Or.inl ⟨as, nameN, v, rfl, rfl, ?_⟩
      split at hp
      · rename_i hd; exact Or.inl ⟨hd, rfl, hp⟩
      · rename_i hnd
        have hnd' : isDirectiveAttrName (attrNameOf nameN) = false := by simpa using hnd
        split at hp
        · rename_i eas eks; have := h1 _ _ _ _ rfl; rw [hnd'] at this; cases this
        · rename_i eas eks; have := h2 _ _ _ _ rfl; rw [hnd'] at this; cases this
        · exact Or.inr (Or.inl ⟨hnd', rfl, hp⟩)
    · rename_i as e; exact Or.inr (Or.inl ⟨as, e, rfl, hp⟩)
    · cases hp


mutual
theorem trElement_ok (o : Opts) (env : Env) : ∀ (n : Node) (st : St), PrepEl n = true → n.kind = .jsxElement → StOk st →
    NoJsx (trElement o env n st).1 = true ∧ StOk (trElement o env n st).2
  | .mk k as ks, st, hp, hk, hst => by
    unfold trElement
    split
    next st' _ _ a0 a1 nameN a2 attrs x a3 children y heq =>
      have hs1 : sizeOf attrs < 1 + sizeOf k + sizeOf as + sizeOf ks := by
        have := congrArg sizeOf heq; simp at this; omega
      have hs2 : sizeOf children < 1 + sizeOf k + sizeOf as + sizeOf ks := by
        have := congrArg sizeOf heq; simp at this; omega
      rw [heq] at hp
      simp only [PrepEl, Bool.and_eq_true] at hp
      obtain ⟨⟨htag, hattrs⟩, hkids⟩ := hp
      simp only
      have hA := transformAttrs_ok o env attrs (isComponent env nameN) (pushFlag o st') hattrs (pushFlag_ok o st' hst)
      generalize transformAttrs o env attrs (isComponent env nameN) (pushFlag o st') = r1 at hA ⊢
      obtain ⟨ar, st2⟩ := r1
      simp only at hA ⊢
      have hT := transformTag_ok env nameN st2 htag hA.2
      generalize transformTag env nameN st2 = r2 at hT ⊢
      obtain ⟨tag, st3⟩ := r2
      simp only at hT ⊢
      have hC := trChildList_ok o env children st3 hkids hT.2
      generalize trChildList o env children st3 = r3 at hC ⊢
      obtain ⟨elems, st4⟩ := r3
      simp only at hC ⊢
      have hP := popFlag_ok o st4 hC.2
      generalize popFlag o st4 = r4 at hP ⊢
      obtain ⟨slotFlag, st5⟩ := r4
      simp only at hP ⊢
      have hF := finishChildren_ok o elems (isComponent env nameN) ar.slots slotFlag st5 hC.1 hA.1.slots hP
      generalize finishChildren o elems (isComponent env nameN) ar.slots slotFlag st5 = r5 at hF ⊢
      obtain ⟨kids, st6⟩ := r5
      simp only at hF ⊢
      -- the argument list, with or without the hints
      have hargs : NoJsxL (if o.optimize = true then
            match ar.dynamicProps with
            | some dp =>
              if (!dp.isEmpty) = true then
                (if (ar.patchFlags != 0) = true then [nArg tag, nArg ar.attrs, nArg kids] ++ [nArg (nNum ar.patchFlags)]
                  else [nArg tag, nArg ar.attrs, nArg kids]) ++ [nArg (nArray (dp.map fun p => nArg (nStr p)))]
              else if (ar.patchFlags != 0) = true then [nArg tag, nArg ar.attrs, nArg kids] ++ [nArg (nNum ar.patchFlags)]
                else [nArg tag, nArg ar.attrs, nArg kids]
            | none => if (ar.patchFlags != 0) = true then [nArg tag, nArg ar.attrs, nArg kids] ++ [nArg (nNum ar.patchFlags)]
                else [nArg tag, nArg ar.attrs, nArg kids]
          else [nArg tag, nArg ar.attrs, nArg kids]) = true := by
        have hb : NoJsxL [nArg tag, nArg ar.attrs, nArg kids] = true := by simp [hT.1, hA.1.attrs, hF.1]
        have hdp : ∀ dp : List String, NoJsxL (dp.map fun p => nArg (nStr p)) = true := fun dp => NoJsxL_map _ _ (by intro x _; simp)
        split
        · split
          · split <;> split <;> simp_all
          · split <;> simp_all
        · exact hb
      generalize (if o.optimize = true then
            match ar.dynamicProps with
            | some dp =>
              if (!dp.isEmpty) = true then
                (if (ar.patchFlags != 0) = true then [nArg tag, nArg ar.attrs, nArg kids] ++ [nArg (nNum ar.patchFlags)]
                  else [nArg tag, nArg ar.attrs, nArg kids]) ++ [nArg (nArray (dp.map fun p => nArg (nStr p)))]
              else if (ar.patchFlags != 0) = true then [nArg tag, nArg ar.attrs, nArg kids] ++ [nArg (nNum ar.patchFlags)]
                else [nArg tag, nArg ar.attrs, nArg kids]
            | none => if (ar.patchFlags != 0) = true then [nArg tag, nArg ar.attrs, nArg kids] ++ [nArg (nNum ar.patchFlags)]
                else [nArg tag, nArg ar.attrs, nArg kids]
          else [nArg tag, nArg ar.attrs, nArg kids]) = args at hargs ⊢
      have hG := getPragma_ok o st6 hF.2
      generalize getPragma o st6 = r6 at hG ⊢
      obtain ⟨pragma, st7⟩ := r6
      simp only at hG ⊢
      split
      · exact ⟨by simp [hG.1, hargs], hG.2⟩
      · have hW := importFromVue_ok st7 "withDirectives" hG.2
        have hD := dirEntries_ok nameN attrs ar.directives (st7.importFromVue "withDirectives").2 hA.1.dirs hW.2
        exact ⟨by simp [hW.1, hG.1, hargs, hD.1], hD.2⟩
    next hne =>
      exfalso
      unfold PrepEl at hp
      split at hp
      · rename_i heq; exact hne _ _ _ _ _ _ _ _ _ heq
      · rename_i heq; injection heq with h1; simp only [Node.kind] at hk; rw [hk] at h1; cases h1
      · cases hp
termination_by n => 2 * sizeOf n
theorem trFragment_ok (o : Opts) (env : Env) : ∀ (n : Node) (st : St), PrepEl n = true → n.kind = .jsxFragment → StOk st →
    NoJsx (trFragment o env n st).1 = true ∧ StOk (trFragment o env n st).2
  | .mk k as ks, st, hp, hk, hst => by
    unfold trFragment
    split
    next st' _ _ a0 x a1 children y heq =>
      have hs2 : sizeOf children < 1 + sizeOf k + sizeOf as + sizeOf ks := by
        have := congrArg sizeOf heq; simp at this; omega
      rw [heq] at hp
      simp only [PrepEl] at hp
      simp only
      have hG := getPragma_ok o (pushFlag o st') (pushFlag_ok o st' hst)
      generalize getPragma o (pushFlag o st') = r1 at hG ⊢
      obtain ⟨pragma, st2⟩ := r1
      simp only at hG ⊢
      have hI := importFromVue_ok st2 FRAGMENT hG.2
      generalize st2.importFromVue FRAGMENT = r2 at hI ⊢
      obtain ⟨frag, st3⟩ := r2
      simp only at hI ⊢
      have hC := trChildList_ok o env children st3 hp hI.2
      generalize trChildList o env children st3 = r3 at hC ⊢
      obtain ⟨elems, st4⟩ := r3
      simp only at hC ⊢
      have hP := popFlag_ok o st4 hC.2
      generalize popFlag o st4 = r4 at hP ⊢
      obtain ⟨slotFlag, st5⟩ := r4
      simp only at hP ⊢
      have hF := finishChildren_ok o elems false none slotFlag st5 hC.1 rfl hP
      exact ⟨by simp [hG.1, hI.1, hF.1], hF.2⟩
    next hne =>
      exfalso
      unfold PrepEl at hp
      split at hp
      · rename_i heq; injection heq with h1; simp only [Node.kind] at hk; rw [hk] at h1; cases h1
      · rename_i heq; exact hne _ _ _ _ _ heq
      · cases hp
termination_by n => 2 * sizeOf n
theorem trAttrs_ok (o : Opts) (env : Env) (c : Bool) : ∀ (attrs : List Node) (acc : AttrAcc) (st : St),
    PrepAttrs attrs = true → AccOk acc → StOk st →
    AccOk (trAttrs o env c attrs acc st).1 ∧ StOk (trAttrs o env c attrs acc st).2
  | [], acc, st, _, hacc, hst => by simp [trAttrs, hacc, hst]
  | a :: rest, acc, st, hp, hacc, hst => by
    simp only [PrepAttrs, Bool.and_eq_true] at hp
    have ih : ∀ ac s, AccOk ac → StOk s → AccOk (trAttrs o env c rest ac s).1 ∧ StOk (trAttrs o env c rest ac s).2 :=
      fun ac s h1 h2 => trAttrs_ok o env c rest ac s hp.2 h1 h2
    rw [trAttrs.eq_def]
    simp only
    have fin : ∀ l st1, AttrOk a l → StOk st1 →
        AccOk (trAttrs o env c rest (attrStep o c a l acc st1).1 (attrStep o c a l acc st1).2).1
        ∧ StOk (trAttrs o env c rest (attrStep o c a l acc st1).1 (attrStep o c a l acc st1).2).2 := by
      intro l st1 hok hst1
      have hstep := attrStep_ok o c a l acc st1 hok hacc hst1
      exact ih _ _ hstep.1 hstep.2
    split
    next aas nameN eas eks =>
      split
      · rename_i hd
        apply fin none st _ hst
        apply AttrOk_of_Prep _ _ hp.1
        refine Or.inr (Or.inr ⟨rfl, ?_, ?_⟩)
        · intro as' n' ea' ek' h; injection h with _ _ h; simp only [List.cons.injEq, and_true] at h; obtain ⟨rfl, _⟩ := h; exact hd
        · intro as' n' ea' ek' h; injection h with _ _ h; simp only [List.cons.injEq, and_true] at h; obtain ⟨_, h⟩ := h; injection h with h; cases h
      · rename_i hnd
        have hnd' : isDirectiveAttrName (attrNameOf nameN) = false := by simpa using hnd
        have hs : sizeOf (Node.mk K.jsxElement eas eks) < sizeOf (Node.mk K.jsxAttr aas [nameN, Node.mk K.jsxElement eas eks] :: rest) := by simp; omega
        have hpe : PrepEl (.mk .jsxElement eas eks) = true := by
          have := hp.1; simp only [PrepAttr, hnd', Bool.false_eq_true, if_false] at this; exact this
        have hE := trElement_ok o env (.mk .jsxElement eas eks) st hpe rfl hst
        apply fin _ _ _ hE.2
        exact AttrOk_of_Prep _ _ hp.1 (Or.inl ⟨aas, nameN, eas, eks, rfl, hnd', _, rfl, hE.1⟩)
    next aas nameN eas eks =>
      split
      · rename_i hd
        apply fin none st _ hst
        apply AttrOk_of_Prep _ _ hp.1
        refine Or.inr (Or.inr ⟨rfl, ?_, ?_⟩)
        · intro as' n' ea' ek' h; injection h with _ _ h; simp only [List.cons.injEq, and_true] at h; obtain ⟨_, h⟩ := h; injection h with h; cases h
        · intro as' n' ea' ek' h; injection h with _ _ h; simp only [List.cons.injEq, and_true] at h; obtain ⟨rfl, _⟩ := h; exact hd
      · rename_i hnd
        have hnd' : isDirectiveAttrName (attrNameOf nameN) = false := by simpa using hnd
        have hs : sizeOf (Node.mk K.jsxFragment eas eks) < sizeOf (Node.mk K.jsxAttr aas [nameN, Node.mk K.jsxFragment eas eks] :: rest) := by simp; omega
        have hpe : PrepEl (.mk .jsxFragment eas eks) = true := by
          have := hp.1; simp only [PrepAttr, hnd', Bool.false_eq_true, if_false] at this; exact this
        have hE := trFragment_ok o env (.mk .jsxFragment eas eks) st hpe rfl hst
        apply fin _ _ _ hE.2
        exact AttrOk_of_Prep _ _ hp.1 (Or.inr (Or.inl ⟨aas, nameN, eas, eks, rfl, hnd', _, rfl, hE.1⟩))
    next h1 h2 =>
      apply fin none st _ hst
      apply AttrOk_of_Prep _ _ hp.1
      refine Or.inr (Or.inr ⟨rfl, ?_, ?_⟩)
      · intro as' n' ea' ek' h; exact absurd h (h1 _ _ _ _)
      · intro as' n' ea' ek' h; exact absurd h (h2 _ _ _ _)
termination_by attrs => 2 * sizeOf attrs
theorem transformAttrs_ok (o : Opts) (env : Env) : ∀ (attrs : List Node) (c : Bool) (st : St), PrepAttrs attrs = true → StOk st →
    ArOk (transformAttrs o env attrs c st).1 ∧ StOk (transformAttrs o env attrs c st).2
  | [], c, st, _, hst => by
    simp only [transformAttrs]
    exact ⟨⟨by simp, rfl, by simp⟩, hst⟩
  | a :: rest, c, st, hp, hst => by
    have h := trAttrs_ok o env c (a :: rest) {} st hp ⟨rfl, rfl, rfl, by simp⟩ hst
    simp only [transformAttrs]
    have hA := assembleProps_ok o (trAttrs o env c (a :: rest) {} st).1.props (trAttrs o env c (a :: rest) {} st).1.mergeArgs
      (trAttrs o env c (a :: rest) {} st).2 h.1.props h.1.mergeArgs h.2
    exact ⟨⟨hA.1, h.1.slots, h.1.dirs⟩, hA.2⟩
termination_by attrs => 2 * sizeOf attrs + 1
theorem trChildList_ok (o : Opts) (env : Env) : ∀ (cs : List Node) (st : St), PrepKids cs = true → StOk st →
    NoJsxL (trChildList o env cs st).1 = true ∧ StOk (trChildList o env cs st).2
  | [], st, _, hst => by simp [trChildList, hst]
  | c :: rest, st, hp, hst => by
    simp only [PrepKids, Bool.and_eq_true] at hp
    have ih : ∀ s, StOk s → NoJsxL (trChildList o env rest s).1 = true ∧ StOk (trChildList o env rest s).2 :=
      fun s h => trChildList_ok o env rest s hp.2 h
    rw [trChildList.eq_def]
    simp only
    split
    · -- text
      split
      · exact ih st hst
      · simp only
        have hI := importFromVue_ok st "createTextVNode" hst
        have hR := ih _ hI.2
        exact ⟨by simp [hI.1, hR.1], hR.2⟩
    · -- an expression container
      rename_i as e
      split
      · exact ih st hst
      · rename_i hne
        have he : NoJsx e = true := by
          have := hp.1
          unfold PrepKid at this
          split at this <;> simp_all
        simp only
        have hst' : StOk (if (o.optimize && isIdent e && !isUnresolvedIdent e) = true then stackFill st else st) := by
          split
          · exact stackFill_ok st hst
          · exact hst
        have hR := ih _ hst'
        exact ⟨by simpa [he] using hR.1, hR.2⟩
    · -- a spread child
      rename_i as e
      have he : NoJsx e = true := by
        have := hp.1
        simpa [PrepKid] using this
      simp only
      have hst' : StOk (if (o.optimize && isIdent e && !isUnresolvedIdent e) = true then stackFill st else st) := by
        split
        · exact stackFill_ok st hst
        · exact hst
      have hR := ih _ hst'
      exact ⟨by simpa [he] using hR.1, hR.2⟩
    next as' ks' =>
      have hs : sizeOf (Node.mk K.jsxElement as' ks') < sizeOf (Node.mk K.jsxElement as' ks' :: rest) := by simp; omega
      have hE := trElement_ok o env (.mk .jsxElement as' ks') st (by simpa [PrepKid] using hp.1) rfl hst
      simp only
      have hR := ih _ hE.2
      exact ⟨by simp [hE.1, hR.1], hR.2⟩
    next as' ks' =>
      have hs : sizeOf (Node.mk K.jsxFragment as' ks') < sizeOf (Node.mk K.jsxFragment as' ks' :: rest) := by simp; omega
      have hE := trFragment_ok o env (.mk .jsxFragment as' ks') st (by simpa [PrepKid] using hp.1) rfl hst
      simp only
      have hR := ih _ hE.2
      exact ⟨by simp [hE.1, hR.1], hR.2⟩
    · -- anything else contributes nothing (and is flagged)
      have hR := ih st hst
      exact ⟨hR.1, panic_ok _ _ hR.2⟩
termination_by cs => 2 * sizeOf cs
end

/-! ## From elements to whole trees: the traversal hands every element to the lowering in prepared form -/

mutual
/-- a well-formed tree at an ordinary (expression / statement / declaration) position: JSX occurs only as complete
    elements and fragments of the shape the parser produces -/
def WfE : Node → Bool
  | .mk .jsxElement _ [.mk .jsxOpening _ [nameN, .mk .list _ attrs, ta], .mk .list _ children, cl] =>
    TagOk nameN && Inert nameN && Inert ta && Inert cl && WfAs attrs && WfKs children
  | .mk .jsxFragment _ [op, .mk .list _ children, cl] => Inert op && Inert cl && WfKs children
  | .mk k _ ks => !isJsxSyntax k && WfEs ks
def WfEs : List Node → Bool
  | [] => true
  | n :: ns => WfE n && WfEs ns
def WfAs : List Node → Bool
  | [] => true
  | a :: rest => WfA a && WfAs rest
/-- an attribute: `name`, `name="s"`, `name={e}`, `name=<el/>`, or `{...e}` -/
def WfA : Node → Bool
  | .mk .jsxAttr _ [name, v] => Inert name && WfV v
  | .mk .spreadElement _ [e] => WfE e
  | _ => false
def WfV : Node → Bool
  | .mk .none _ [] => true
  | .mk .str _ [] => true
  | .mk .jsxExprContainer _ [e] => WfE e
  | .mk .jsxElement as ks => WfE (.mk .jsxElement as ks)
  | .mk .jsxFragment as ks => WfE (.mk .jsxFragment as ks)
  | _ => false
def WfKs : List Node → Bool
  | [] => true
  | c :: rest => WfK c && WfKs rest
/-- a JSX child: text, `{e}`, `{}`, `{...e}`, an element or a fragment -/
def WfK : Node → Bool
  | .mk .jsxText _ [] => true
  | .mk .jsxExprContainer _ [e] => (match e with | .mk .jsxEmpty _ [] => true | e => WfE e)
  | .mk .jsxSpreadChild _ [e] => WfE e
  | .mk .jsxElement as ks => WfE (.mk .jsxElement as ks)
  | .mk .jsxFragment as ks => WfE (.mk .jsxFragment as ks)
  | _ => false
end


theorem drainInto_ok (items : List Node) (st : St) (hi : NoJsxL items = true) (hst : StOk st) :
    NoJsxL (drainInto items st).1 = true ∧ StOk (drainInto items st).2 := by
  unfold drainInto
  simp only
  by_cases hc : (!st.injectingConsts.isEmpty) = true <;> by_cases hv : (!st.injectingVars.isEmpty) = true <;>
    simp only [hc, hv, if_true, Bool.false_eq_true, if_false]
  · exact ⟨by simp [hi, hst.vars, hst.consts], ⟨hst.imports, hst.ton, hst.slotH, rfl, rfl⟩⟩
  · exact ⟨by simp [hi, hst.consts], ⟨hst.imports, hst.ton, hst.slotH, hst.vars, rfl⟩⟩
  · exact ⟨by simp [hi, hst.vars], ⟨hst.imports, hst.ton, hst.slotH, rfl, hst.consts⟩⟩
  · exact ⟨hi, hst⟩

theorem clearPending_ok (st : St) (hst : StOk st) : StOk st.clearPending :=
  ⟨hst.imports, hst.ton, hst.slotH, rfl, rfl⟩

theorem restore_ok (st' : St) (c v : List Node) (hst : StOk st') (hc : NoJsxL c = true) (hv : NoJsxL v = true) :
    StOk ({ st' with injectingConsts := c, injectingVars := v } : St) :=
  ⟨hst.imports, hst.ton, hst.slotH, hv, hc⟩

theorem drainArrow_ok (n : Node) (st : St) (hn : NoJsx n = true) (hst : StOk st) :
    NoJsx (drainArrow n st).1 = true ∧ StOk (drainArrow n st).2 := by
  unfold drainArrow
  split
  · rename_i as params body tp rt
    have hparts : NoJsx params = true ∧ NoJsx body = true ∧ NoJsx tp = true ∧ NoJsx rt = true := by
      simpa [NoJsx, NoJsxL, isJsxSyntax, and_assoc] using hn
    obtain ⟨hp, hb, htp, hrt⟩ := hparts
    split
    · split
      · exact ⟨hn, hst⟩
      · simp only
        by_cases hc : (!st.injectingConsts.isEmpty) = true <;> by_cases hv : (!st.injectingVars.isEmpty) = true <;>
          simp only [hc, hv, if_true, Bool.false_eq_true, if_false]
        · exact ⟨by simp [NoJsx, NoJsxL, isJsxSyntax, hp, hb, htp, hrt, hst.vars, hst.consts], ⟨hst.imports, hst.ton, hst.slotH, rfl, rfl⟩⟩
        · exact ⟨by simp [NoJsx, NoJsxL, isJsxSyntax, hp, hb, htp, hrt, hst.consts], ⟨hst.imports, hst.ton, hst.slotH, hst.vars, rfl⟩⟩
        · exact ⟨by simp [NoJsx, NoJsxL, isJsxSyntax, hp, hb, htp, hrt, hst.vars], ⟨hst.imports, hst.ton, hst.slotH, rfl, hst.consts⟩⟩
        · exact ⟨by simp [NoJsx, NoJsxL, isJsxSyntax, hp, hb, htp, hrt], hst⟩
    · exact ⟨hn, hst⟩
  · exact ⟨hn, hst⟩

theorem importHook_ok (n : Node) (st : St) (hst : StOk st) : StOk (importHook n st) := by
  unfold importHook
  split
  · split
    · exact hst
    · split
      · exact ⟨hst.imports, hst.ton, hst.slotH, hst.vars, hst.consts⟩
      · exact hst
  · exact hst


theorem PrepAttrs_iff (l : List Node) : PrepAttrs l = true ↔ ∀ x ∈ l, PrepAttr x = true := by
  induction l with
  | nil => simp [PrepAttrs]
  | cons a r ih => simp [PrepAttrs, ih]

theorem PrepAttrs_append (a b : List Node) : PrepAttrs (a ++ b) = (PrepAttrs a && PrepAttrs b) := by
  induction a with
  | nil => simp [PrepAttrs]
  | cons x r ih => simp [PrepAttrs, ih, Bool.and_assoc]

theorem decoupleVModels_Prep (elems : List Node) (h : NoJsxL elems = true) : PrepAttrs (decoupleVModels elems) = true := by
  rw [PrepAttrs_iff]
  intro x hx
  unfold decoupleVModels at hx
  simp only [List.mem_filterMap] at hx
  obtain ⟨el, hel, hsome⟩ := hx
  have hne : NoJsx el = true := (NoJsxL_iff elems).mp h el hel
  split at hsome
  · rename_i as0 as1 as2 inner
    have hinner : NoJsxL inner = true := by simpa [NoJsx, NoJsxL, isJsxSyntax] using hne
    simp only [Option.some.injEq] at hsome
    subst hsome
    -- the generated attribute: `v-model`, value `{[...]}`
    have hd1 : isDirectiveAttrName (attrNameOf (nIdentName "v-model")) = true := by decide
    simp_all [PrepAttr, ValOk, Option.isSome]
  · simp at hsome


theorem PrepAttrs_take (l : List Node) (n : Nat) (h : PrepAttrs l = true) : PrepAttrs (l.take n) = true := by
  rw [PrepAttrs_iff] at h ⊢; intro x hx; exact h x (List.mem_of_mem_take hx)
theorem PrepAttrs_drop (l : List Node) (n : Nat) (h : PrepAttrs l = true) : PrepAttrs (l.drop n) = true := by
  rw [PrepAttrs_iff] at h ⊢; intro x hx; exact h x (List.mem_of_mem_drop hx)

theorem findVModels_spec (attrs : List Node) (i idx : Nat) (h : findVModels attrs i = some idx) :
    ∃ j as ias iks v, idx = i + j ∧ attrs[j]? = some (.mk .jsxAttr as [.mk .ident ("v-models" :: ias) iks, v]) := by
  fun_induction findVModels attrs i with
  | case1 => simp at h
  | case2 as n ias iks v rest i hn =>
    have hn' : n = "v-models" := by simpa using hn
    subst hn'
    simp only [Option.some.injEq] at h
    exact ⟨0, as, ias, iks, v, by omega, by simp⟩
  | case3 as n ias iks v rest i hn ih =>
    obtain ⟨j, as', ias', iks', v', hj, hg⟩ := ih h
    exact ⟨j + 1, as', ias', iks', v', by omega, by simpa using hg⟩
  | case4 x rest i hne ih =>
    obtain ⟨j, as', ias', iks', v', hj, hg⟩ := ih h
    exact ⟨j + 1, as', ias', iks', v', by omega, by simpa using hg⟩

/-- `visit_mut_jsx_opening_element`: the tag is untouched and the attributes stay prepared (the generated `v-model`
    attributes are directives whose array value is made of JSX-free parts) -/
theorem openingHook_ok (as las : List String) (nameN ta : Node) (attrs : List Node) (st : St)
    (hp : PrepAttrs attrs = true) (hst : StOk st) :
    ∃ attrs', (openingHook (.mk .jsxOpening as [nameN, .mk .list las attrs, ta]) st).1 = .mk .jsxOpening as [nameN, .mk .list las attrs', ta]
      ∧ PrepAttrs attrs' = true ∧ StOk (openingHook (.mk .jsxOpening as [nameN, .mk .list las attrs, ta]) st).2 := by
  simp only [openingHook]
  split
  · exact ⟨attrs, rfl, hp, hst⟩
  · rename_i idx hf
    obtain ⟨j, as', ias, iks, v, hj, hg⟩ := findVModels_spec attrs 0 idx hf
    have hidx : idx = j := by omega
    subst hidx
    have hb := PrepAttrs_take attrs idx hp
    have ha := PrepAttrs_drop attrs (idx + 1) hp
    simp only [hg]
    -- the value of the `v-models` attribute is admissible (it is a directive)
    have hv : ValOk v = true := by
      have hm : Node.mk .jsxAttr as' [.mk .ident ("v-models" :: ias) iks, v] ∈ attrs := List.mem_of_getElem? hg
      have := (PrepAttrs_iff attrs).mp hp _ hm
      have hd : isDirectiveAttrName (attrNameOf (.mk .ident ("v-models" :: ias) iks)) = true := by
        simp only [attrNameOf, isDirectiveAttrName]; decide
      unfold PrepAttr at this
      simp only [hd, if_true] at this
      exact this
    split
    · exact ⟨_, rfl, by simp [PrepAttrs_append, hb, ha], err_ok _ _ hst⟩
    · rename_i e he
      have hne := containerExpr_NoJsx v e hv he
      split
      · exact ⟨_, rfl, by simp [PrepAttrs_append, hb, ha], err_ok _ _ hst⟩
      · rename_i elems hel
        have hels := arrayElems_NoJsx e elems hne hel
        exact ⟨_, rfl, by simp [PrepAttrs_append, hb, ha, decoupleVModels_Prep elems hels], hst⟩


/-! ### the hooks on a node that is not JSX -/

theorem kindHook_plain (o : Opts) (env : Env) (hrt : o.resolveType = false) (k : K) (as : List String) (ks : List Node) (st : St)
    (hk : k ≠ .jsxOpening) (hst : StOk st) :
    (kindHook o env (.mk k as ks) st).1 = .mk k as ks ∧ StOk (kindHook o env (.mk k as ks) st).2 := by
  unfold kindHook
  split
  · rename_i heq; injection heq with h1; exact absurd h1 hk
  · exact ⟨rfl, importHook_ok _ _ hst⟩
  · simp [callHook, hrt, hst]
  · simp [declaratorHook, hrt, hst]
  · exact ⟨rfl, hst⟩

theorem exprHook_plain (o : Opts) (env : Env) (pos : Pos) (k : K) (as : List String) (ks : List Node) (st : St)
    (hk : pos ≠ .normal ∨ (k ≠ .jsxElement ∧ k ≠ .jsxFragment)) (hst : StOk st) :
    (exprHook o env pos (.mk k as ks) st).1 = .mk k as ks ∧ StOk (exprHook o env pos (.mk k as ks) st).2 := by
  unfold exprHook
  split
  · exact ⟨rfl, hst⟩
  · rename_i hpos
    have hpos' : pos = .normal := by simpa using hpos
    have hk' : k ≠ .jsxElement ∧ k ≠ .jsxFragment := by
      rcases hk with h | h
      · exact absurd hpos' h
      · exact h
    split
    · rename_i heq; injection heq with h1; exact absurd h1 hk'.1
    · rename_i heq; injection heq with h1; exact absurd h1 hk'.2
    · exact ⟨rfl, ⟨hst.imports, hst.ton, hst.slotH, hst.vars, hst.consts⟩⟩
    · exact ⟨rfl, hst⟩

/-- unfolding `visit` on a node that is neither a statement list nor an arrow function -/
theorem visit_generic (o : Opts) (env : Env) (k : K) (as : List String) (ks : List Node) (pos : Pos) (st : St)
    (hs : k ≠ .stmts) (ha : k ≠ .arrow) :
    visit o env (.mk k as ks) pos st =
      exprHook o env pos (kindHook o env (.mk k as (visitKids o env k pos 0 ks st).1) (visitKids o env k pos 0 ks st).2).1
        (kindHook o env (.mk k as (visitKids o env k pos 0 ks st).1) (visitKids o env k pos 0 ks st).2).2 := by
  unfold visit
  split
  · exact absurd rfl hs
  · exact absurd rfl ha
  · rfl


/-! ### the JSX skeleton, given the induction hypotheses for attributes and children -/

theorem visit_list_normal (o : Opts) (env : Env) (hrt : o.resolveType = false) (las : List String) (xs : List Node) (st : St)
    (P : List Node → Prop)
    (ih : P (visitKids o env .list .normal 0 xs st).1 ∧ StOk (visitKids o env .list .normal 0 xs st).2) :
    ∃ xs', (visit o env (.mk .list las xs) .normal st).1 = .mk .list las xs' ∧ P xs' ∧ StOk (visit o env (.mk .list las xs) .normal st).2 := by
  rw [visit_generic o env .list las xs .normal st (by decide) (by decide)]
  have hk := kindHook_plain o env hrt .list las (visitKids o env .list .normal 0 xs st).1 (visitKids o env .list .normal 0 xs st).2 (by decide) ih.2
  rw [show kindHook o env (.mk .list las (visitKids o env .list .normal 0 xs st).1) (visitKids o env .list .normal 0 xs st).2
        = (.mk .list las (visitKids o env .list .normal 0 xs st).1, (kindHook o env (.mk .list las (visitKids o env .list .normal 0 xs st).1) (visitKids o env .list .normal 0 xs st).2).2) from Prod.ext hk.1 rfl]
  have he := exprHook_plain o env .normal .list las (visitKids o env .list .normal 0 xs st).1 _ (Or.inr ⟨by decide, by decide⟩) hk.2
  exact ⟨_, he.1, ih.1, he.2⟩

theorem visit_list_childList (o : Opts) (env : Env) (hrt : o.resolveType = false) (las : List String) (xs : List Node) (st : St)
    (ih : PrepKids (visitKids o env .list .childList 0 xs st).1 = true ∧ StOk (visitKids o env .list .childList 0 xs st).2) :
    ∃ xs', (visit o env (.mk .list las xs) .childList st).1 = .mk .list las xs' ∧ PrepKids xs' = true
      ∧ StOk (visit o env (.mk .list las xs) .childList st).2 := by
  rw [visit_generic o env .list las xs .childList st (by decide) (by decide)]
  have hk := kindHook_plain o env hrt .list las (visitKids o env .list .childList 0 xs st).1 (visitKids o env .list .childList 0 xs st).2 (by decide) ih.2
  rw [show kindHook o env (.mk .list las (visitKids o env .list .childList 0 xs st).1) (visitKids o env .list .childList 0 xs st).2
        = (.mk .list las (visitKids o env .list .childList 0 xs st).1, (kindHook o env (.mk .list las (visitKids o env .list .childList 0 xs st).1) (visitKids o env .list .childList 0 xs st).2).2) from Prod.ext hk.1 rfl]
  have he := exprHook_plain o env .childList .list las (visitKids o env .list .childList 0 xs st).1 _ (Or.inl (by decide)) hk.2
  exact ⟨_, he.1, ih.1, he.2⟩

/-- the opening element: tag untouched, attributes prepared -/
theorem visit_opening (o : Opts) (env : Env) (hrt : o.resolveType = false) (oas las : List String) (nameN ta : Node) (attrs : List Node) (st : St)
    (hn : Inert nameN = true) (hta : Inert ta = true)
    (ih : ∀ s, StOk s → PrepAttrs (visitKids o env .list .normal 0 attrs s).1 = true ∧ StOk (visitKids o env .list .normal 0 attrs s).2)
    (hst : StOk st) :
    ∃ attrs', (visit o env (.mk .jsxOpening oas [nameN, .mk .list las attrs, ta]) .normal st).1 = .mk .jsxOpening oas [nameN, .mk .list las attrs', ta]
      ∧ PrepAttrs attrs' = true ∧ StOk (visit o env (.mk .jsxOpening oas [nameN, .mk .list las attrs, ta]) .normal st).2 := by
  rw [visit_generic o env .jsxOpening oas _ .normal st (by decide) (by decide)]
  -- the three children
  have h0 : visit o env nameN (kidPos .jsxOpening .normal 0) st = (nameN, st) := visit_inert o env nameN _ st hn
  obtain ⟨attrs1, hl1, hl2, hl3⟩ := visit_list_normal o env hrt las attrs st (fun xs => PrepAttrs xs = true) (ih st hst)
  have hkids : visitKids o env .jsxOpening .normal 0 [nameN, .mk .list las attrs, ta] st
      = ([nameN, .mk .list las attrs1, ta], (visit o env (.mk .list las attrs) .normal st).2) := by
    simp only [visitKids, h0]
    have hp1 : kidPos .jsxOpening .normal (0 + 1) = .normal := by decide
    rw [hp1]
    have h2 : visit o env ta (kidPos .jsxOpening .normal (0 + 1 + 1)) (visit o env (.mk .list las attrs) .normal st).2
        = (ta, (visit o env (.mk .list las attrs) .normal st).2) := visit_inert o env ta _ _ hta
    rw [h2, ← hl1]
  rw [hkids]
  simp only [kindHook]
  obtain ⟨attrs2, ho1, ho2, ho3⟩ := openingHook_ok oas las nameN ta attrs1 (visit o env (.mk .list las attrs) .normal st).2 hl2 hl3
  rw [show openingHook (.mk .jsxOpening oas [nameN, .mk .list las attrs1, ta]) (visit o env (.mk .list las attrs) .normal st).2
      = (.mk .jsxOpening oas [nameN, .mk .list las attrs2, ta], (openingHook (.mk .jsxOpening oas [nameN, .mk .list las attrs1, ta]) (visit o env (.mk .list las attrs) .normal st).2).2)
      from Prod.ext ho1 rfl]
  have he := exprHook_plain o env .normal .jsxOpening oas [nameN, .mk .list las attrs2, ta] _ (Or.inr ⟨by decide, by decide⟩) ho3
  exact ⟨attrs2, he.1, ho2, he.2⟩


/-- the three children of an element, at any position of the element -/
theorem visitKids_element (o : Opts) (env : Env) (hrt : o.resolveType = false) (pos : Pos) (oas las cas : List String)
    (nameN ta cl : Node) (attrs children : List Node) (st : St)
    (hn : Inert nameN = true) (hta : Inert ta = true) (hcl : Inert cl = true)
    (iha : ∀ s, StOk s → PrepAttrs (visitKids o env .list .normal 0 attrs s).1 = true ∧ StOk (visitKids o env .list .normal 0 attrs s).2)
    (ihk : ∀ s, StOk s → PrepKids (visitKids o env .list .childList 0 children s).1 = true ∧ StOk (visitKids o env .list .childList 0 children s).2)
    (hst : StOk st) :
    ∃ attrs' children' st', visitKids o env .jsxElement pos 0 [.mk .jsxOpening oas [nameN, .mk .list las attrs, ta], .mk .list cas children, cl] st
        = ([.mk .jsxOpening oas [nameN, .mk .list las attrs', ta], .mk .list cas children', cl], st')
      ∧ PrepAttrs attrs' = true ∧ PrepKids children' = true ∧ StOk st' := by
  obtain ⟨attrs', ho1, ho2, ho3⟩ := visit_opening o env hrt oas las nameN ta attrs st hn hta iha hst
  obtain ⟨children', hc1, hc2, hc3⟩ := visit_list_childList o env hrt cas children
    (visit o env (.mk .jsxOpening oas [nameN, .mk .list las attrs, ta]) .normal st).2 (ihk _ ho3)
  refine ⟨attrs', children', _, ?_, ho2, hc2, hc3⟩
  simp only [visitKids]
  have hp0 : kidPos .jsxElement pos 0 = .normal := by simp [kidPos]
  have hp1 : kidPos .jsxElement pos (0 + 1) = .childList := by simp [kidPos]
  have hp2 : kidPos .jsxElement pos (0 + 1 + 1) = .normal := by simp [kidPos]
  rw [hp0, hp1, hp2]
  rw [visit_inert o env cl .normal _ hcl]
  rw [← ho1, ← hc1]

/-- an element at an ordinary position is replaced by its lowering, which contains no JSX -/
theorem visit_element_normal (o : Opts) (env : Env) (hrt : o.resolveType = false) (as oas las cas : List String)
    (nameN ta cl : Node) (attrs children : List Node) (st : St)
    (htag : TagOk nameN = true) (hn : Inert nameN = true) (hta : Inert ta = true) (hcl : Inert cl = true)
    (iha : ∀ s, StOk s → PrepAttrs (visitKids o env .list .normal 0 attrs s).1 = true ∧ StOk (visitKids o env .list .normal 0 attrs s).2)
    (ihk : ∀ s, StOk s → PrepKids (visitKids o env .list .childList 0 children s).1 = true ∧ StOk (visitKids o env .list .childList 0 children s).2)
    (hst : StOk st) :
    let n := Node.mk .jsxElement as [.mk .jsxOpening oas [nameN, .mk .list las attrs, ta], .mk .list cas children, cl]
    NoJsx (visit o env n .normal st).1 = true ∧ StOk (visit o env n .normal st).2 := by
  intro n
  obtain ⟨attrs', children', st', hk, hpa, hpk, hst'⟩ := visitKids_element o env hrt .normal oas las cas nameN ta cl attrs children st hn hta hcl iha ihk hst
  show NoJsx (visit o env (.mk .jsxElement as _) .normal st).1 = true ∧ _
  rw [visit_generic o env .jsxElement as _ .normal st (by decide) (by decide), hk]
  simp only [kindHook, exprHook]
  have hprep : PrepEl (.mk .jsxElement as [.mk .jsxOpening oas [nameN, .mk .list las attrs', ta], .mk .list cas children', cl]) = true := by
    simp [PrepEl, htag, hpa, hpk]
  exact trElement_ok o env _ st' hprep rfl hst'

/-- an element at a JSX position (a child, an attribute value) stays an element, in prepared form -/
theorem visit_element_jsxKid (o : Opts) (env : Env) (hrt : o.resolveType = false) (as oas las cas : List String)
    (nameN ta cl : Node) (attrs children : List Node) (st : St)
    (htag : TagOk nameN = true) (hn : Inert nameN = true) (hta : Inert ta = true) (hcl : Inert cl = true)
    (iha : ∀ s, StOk s → PrepAttrs (visitKids o env .list .normal 0 attrs s).1 = true ∧ StOk (visitKids o env .list .normal 0 attrs s).2)
    (ihk : ∀ s, StOk s → PrepKids (visitKids o env .list .childList 0 children s).1 = true ∧ StOk (visitKids o env .list .childList 0 children s).2)
    (hst : StOk st) :
    let n := Node.mk .jsxElement as [.mk .jsxOpening oas [nameN, .mk .list las attrs, ta], .mk .list cas children, cl]
    ∃ ks', (visit o env n .jsxKid st).1 = .mk .jsxElement as ks' ∧ PrepEl (.mk .jsxElement as ks') = true ∧ StOk (visit o env n .jsxKid st).2 := by
  intro n
  obtain ⟨attrs', children', st', hk, hpa, hpk, hst'⟩ := visitKids_element o env hrt .jsxKid oas las cas nameN ta cl attrs children st hn hta hcl iha ihk hst
  show ∃ ks', (visit o env (.mk .jsxElement as _) .jsxKid st).1 = _ ∧ _
  rw [visit_generic o env .jsxElement as _ .jsxKid st (by decide) (by decide), hk]
  have hkh := kindHook_plain o env hrt .jsxElement as [.mk .jsxOpening oas [nameN, .mk .list las attrs', ta], .mk .list cas children', cl] st' (by decide) hst'
  rw [show kindHook o env (.mk .jsxElement as [.mk .jsxOpening oas [nameN, .mk .list las attrs', ta], .mk .list cas children', cl]) st'
      = (.mk .jsxElement as [.mk .jsxOpening oas [nameN, .mk .list las attrs', ta], .mk .list cas children', cl],
         (kindHook o env (.mk .jsxElement as [.mk .jsxOpening oas [nameN, .mk .list las attrs', ta], .mk .list cas children', cl]) st').2)
      from Prod.ext hkh.1 rfl]
  have he := exprHook_plain o env .jsxKid .jsxElement as [.mk .jsxOpening oas [nameN, .mk .list las attrs', ta], .mk .list cas children', cl] _ (Or.inl (by decide)) hkh.2
  exact ⟨_, he.1, by simp [PrepEl, htag, hpa, hpk], he.2⟩


theorem visitKids_fragment (o : Opts) (env : Env) (hrt : o.resolveType = false) (pos : Pos) (cas : List String)
    (op cl : Node) (children : List Node) (st : St) (hop : Inert op = true) (hcl : Inert cl = true)
    (ihk : ∀ s, StOk s → PrepKids (visitKids o env .list .childList 0 children s).1 = true ∧ StOk (visitKids o env .list .childList 0 children s).2)
    (hst : StOk st) :
    ∃ children' st', visitKids o env .jsxFragment pos 0 [op, .mk .list cas children, cl] st = ([op, .mk .list cas children', cl], st')
      ∧ PrepKids children' = true ∧ StOk st' := by
  obtain ⟨children', hc1, hc2, hc3⟩ := visit_list_childList o env hrt cas children st (ihk _ hst)
  refine ⟨children', _, ?_, hc2, hc3⟩
  simp only [visitKids]
  have hp0 : kidPos .jsxFragment pos 0 = .normal := by simp [kidPos]
  have hp1 : kidPos .jsxFragment pos (0 + 1) = .childList := by simp [kidPos]
  have hp2 : kidPos .jsxFragment pos (0 + 1 + 1) = .normal := by simp [kidPos]
  rw [hp0, hp1, hp2, visit_inert o env op .normal st hop]
  simp only
  rw [visit_inert o env cl .normal _ hcl, ← hc1]

theorem visit_fragment_normal (o : Opts) (env : Env) (hrt : o.resolveType = false) (as cas : List String)
    (op cl : Node) (children : List Node) (st : St) (hop : Inert op = true) (hcl : Inert cl = true)
    (ihk : ∀ s, StOk s → PrepKids (visitKids o env .list .childList 0 children s).1 = true ∧ StOk (visitKids o env .list .childList 0 children s).2)
    (hst : StOk st) :
    let n := Node.mk .jsxFragment as [op, .mk .list cas children, cl]
    NoJsx (visit o env n .normal st).1 = true ∧ StOk (visit o env n .normal st).2 := by
  intro n
  obtain ⟨children', st', hk, hpk, hst'⟩ := visitKids_fragment o env hrt .normal cas op cl children st hop hcl ihk hst
  show NoJsx (visit o env (.mk .jsxFragment as _) .normal st).1 = true ∧ _
  rw [visit_generic o env .jsxFragment as _ .normal st (by decide) (by decide), hk]
  simp only [kindHook, exprHook]
  exact trFragment_ok o env _ st' (by simp [PrepEl, hpk]) rfl hst'

theorem visit_fragment_jsxKid (o : Opts) (env : Env) (hrt : o.resolveType = false) (as cas : List String)
    (op cl : Node) (children : List Node) (st : St) (hop : Inert op = true) (hcl : Inert cl = true)
    (ihk : ∀ s, StOk s → PrepKids (visitKids o env .list .childList 0 children s).1 = true ∧ StOk (visitKids o env .list .childList 0 children s).2)
    (hst : StOk st) :
    let n := Node.mk .jsxFragment as [op, .mk .list cas children, cl]
    ∃ ks', (visit o env n .jsxKid st).1 = .mk .jsxFragment as ks' ∧ PrepEl (.mk .jsxFragment as ks') = true ∧ StOk (visit o env n .jsxKid st).2 := by
  intro n
  obtain ⟨children', st', hk, hpk, hst'⟩ := visitKids_fragment o env hrt .jsxKid cas op cl children st hop hcl ihk hst
  show ∃ ks', (visit o env (.mk .jsxFragment as _) .jsxKid st).1 = _ ∧ _
  rw [visit_generic o env .jsxFragment as _ .jsxKid st (by decide) (by decide), hk]
  have hkh := kindHook_plain o env hrt .jsxFragment as [op, .mk .list cas children', cl] st' (by decide) hst'
  rw [show kindHook o env (.mk .jsxFragment as [op, .mk .list cas children', cl]) st'
      = (.mk .jsxFragment as [op, .mk .list cas children', cl], (kindHook o env (.mk .jsxFragment as [op, .mk .list cas children', cl]) st').2)
      from Prod.ext hkh.1 rfl]
  have he := exprHook_plain o env .jsxKid .jsxFragment as [op, .mk .list cas children', cl] _ (Or.inl (by decide)) hkh.2
  exact ⟨_, he.1, by simp [PrepEl, hpk], he.2⟩


theorem WfE_element_shape (as : List String) (ks : List Node) (h : WfE (.mk .jsxElement as ks) = true) :
    ∃ oas nameN las attrs ta cas children cl, ks = [.mk .jsxOpening oas [nameN, .mk .list las attrs, ta], .mk .list cas children, cl]
      ∧ TagOk nameN = true ∧ Inert nameN = true ∧ Inert ta = true ∧ Inert cl = true ∧ WfAs attrs = true ∧ WfKs children = true := by
  unfold WfE at h
  split at h
  · rename_i heq
    injection heq with _ _ hks
    subst hks
    simp only [Bool.and_eq_true] at h
    exact ⟨_, _, _, _, _, _, _, _, rfl, h.1.1.1.1.1, h.1.1.1.1.2, h.1.1.1.2, h.1.1.2, h.1.2, h.2⟩
  · rename_i heq; injection heq with hk; cases hk
  · rename_i heq
    injection heq with hk _ _
    subst hk
    simp [isJsxSyntax] at h

theorem WfE_fragment_shape (as : List String) (ks : List Node) (h : WfE (.mk .jsxFragment as ks) = true) :
    ∃ op cas children cl, ks = [op, .mk .list cas children, cl] ∧ Inert op = true ∧ Inert cl = true ∧ WfKs children = true := by
  unfold WfE at h
  split at h
  · rename_i heq; injection heq with hk; cases hk
  · rename_i heq
    injection heq with _ _ hks
    subst hks
    simp only [Bool.and_eq_true] at h
    exact ⟨_, _, _, _, rfl, h.1.1, h.1.2, h.2⟩
  · rename_i heq
    injection heq with hk _ _
    subst hk
    simp [isJsxSyntax] at h

theorem WfE_plain (k : K) (as : List String) (ks : List Node) (h : WfE (.mk k as ks) = true) (h1 : k ≠ .jsxElement) (h2 : k ≠ .jsxFragment) :
    isJsxSyntax k = false ∧ WfEs ks = true := by
  unfold WfE at h
  split at h
  · rename_i heq; injection heq with hk; exact absurd hk h1
  · rename_i heq; injection heq with hk; exact absurd hk h2
  · rename_i heq
    injection heq with hk _ hks
    subst hk hks
    simpa using h

theorem kidPos_normal (k : K) (j : Nat) (h : isJsxSyntax k = false) : kidPos k .normal j = .normal := by
  unfold kidPos
  split <;> simp_all [isJsxSyntax]

/-- what the traversal leaves of an attribute value: a prepared element / fragment, or a strict value -/
def PostV (v : Node) : Bool :=
  match v with
  | .mk .jsxElement as ks => PrepEl (.mk .jsxElement as ks)
  | .mk .jsxFragment as ks => PrepEl (.mk .jsxFragment as ks)
  | v => StrictValOk v

theorem PostV_ValOk (v : Node) (h : PostV v = true) : ValOk v = true := by
  unfold PostV at h
  split at h
  · simp [ValOk]
  · simp [ValOk]
  · unfold StrictValOk at h
    unfold ValOk
    split at h <;> simp_all

theorem PrepAttr_of_PostV (as : List String) (name v : Node) (h : PostV v = true) : PrepAttr (.mk .jsxAttr as [name, v]) = true := by
  unfold PrepAttr
  split
  · exact PostV_ValOk _ h
  · unfold PostV at h
    exact h


theorem exprHook_NoJsx (o : Opts) (env : Env) (pos : Pos) (m : Node) (st : St) (hm : NoJsx m = true) (hst : StOk st) :
    (exprHook o env pos m st).1 = m ∧ StOk (exprHook o env pos m st).2 := by
  unfold exprHook
  split
  · exact ⟨rfl, hst⟩
  · split
    · simp [NoJsx, isJsxSyntax] at hm
    · simp [NoJsx, isJsxSyntax] at hm
    · exact ⟨rfl, ⟨hst.imports, hst.ton, hst.slotH, hst.vars, hst.consts⟩⟩
    · exact ⟨rfl, hst⟩

/-- a one-child wrapper (`{e}`, `{...e}` as a child or as an attribute) whose child sits at an ordinary position -/
theorem visit_wrap1 (o : Opts) (env : Env) (hrt : o.resolveType = false) (k : K) (as : List String) (e : Node) (pos : Pos) (st : St)
    (hk : k = .jsxExprContainer ∨ k = .jsxSpreadChild ∨ k = .spreadElement)
    (ih : StOk (visit o env e .normal st).2) :
    (visit o env (.mk k as [e]) pos st).1 = .mk k as [(visit o env e .normal st).1] ∧ StOk (visit o env (.mk k as [e]) pos st).2 := by
  have hs : k ≠ .stmts := by rcases hk with rfl | rfl | rfl <;> decide
  have ha : k ≠ .arrow := by rcases hk with rfl | rfl | rfl <;> decide
  have ho : k ≠ .jsxOpening := by rcases hk with rfl | rfl | rfl <;> decide
  have hne : k ≠ .jsxElement ∧ k ≠ .jsxFragment := by rcases hk with rfl | rfl | rfl <;> exact ⟨by decide, by decide⟩
  have hp : kidPos k pos 0 = .normal := by rcases hk with rfl | rfl | rfl <;> simp [kidPos]
  rw [visit_generic o env k as [e] pos st hs ha]
  have hkids : visitKids o env k pos 0 [e] st = ([(visit o env e .normal st).1], (visit o env e .normal st).2) := by
    simp only [visitKids, hp]
  rw [hkids]
  have hkh := kindHook_plain o env hrt k as [(visit o env e .normal st).1] (visit o env e .normal st).2 ho ih
  rw [show kindHook o env (.mk k as [(visit o env e .normal st).1]) (visit o env e .normal st).2
      = (.mk k as [(visit o env e .normal st).1], (kindHook o env (.mk k as [(visit o env e .normal st).1]) (visit o env e .normal st).2).2)
      from Prod.ext hkh.1 rfl]
  exact exprHook_plain o env pos k as _ _ (Or.inr hne) hkh.2

theorem visit_arrow_nil (o : Opts) (env : Env) (as : List String) (pos : Pos) (st : St) :
    visit o env (.mk .arrow as []) pos st = exprHook o env pos (kindHook o env (.mk .arrow as []) st).1 (kindHook o env (.mk .arrow as []) st).2 := by
  unfold visit
  simp [visitKids]

/-! ### THE TRAVERSAL THEOREM -/

mutual
/-- **At an ordinary position the traversal leaves no JSX behind** — for every well-formed tree (JSX nested in
    expressions nested in JSX … to any depth), every option set with resolveType off, every state without JSX. -/
theorem visit_NoJsx (o : Opts) (env : Env) (hrt : o.resolveType = false) : ∀ (n : Node) (st : St), WfE n = true → StOk st →
    NoJsx (visit o env n .normal st).1 = true ∧ StOk (visit o env n .normal st).2
  | .mk k as ks, st, hw, hst => by
    by_cases hke : k = .jsxElement
    · subst hke
      obtain ⟨oas, nameN, las, attrs, ta, cas, children, cl, hks, htag, hn, hta, hcl, hwa, hwk⟩ := WfE_element_shape as ks hw
      subst hks
      have hs1 : sizeOf attrs < sizeOf (Node.mk K.jsxElement as [.mk .jsxOpening oas [nameN, .mk .list las attrs, ta], .mk .list cas children, cl]) := by
        simp; omega
      have hs2 : sizeOf children < sizeOf (Node.mk K.jsxElement as [.mk .jsxOpening oas [nameN, .mk .list las attrs, ta], .mk .list cas children, cl]) := by
        simp; omega
      exact visit_element_normal o env hrt as oas las cas nameN ta cl attrs children st htag hn hta hcl
        (fun s hs => visitAttrs_Prep o env hrt attrs 0 s hwa hs) (fun s hs => visitChildren_Prep o env hrt children 0 s hwk hs) hst
    · by_cases hkf : k = .jsxFragment
      · subst hkf
        obtain ⟨op, cas, children, cl, hks, hop, hcl, hwk⟩ := WfE_fragment_shape as ks hw
        subst hks
        have hs2 : sizeOf children < sizeOf (Node.mk K.jsxFragment as [op, .mk .list cas children, cl]) := by simp; omega
        exact visit_fragment_normal o env hrt as cas op cl children st hop hcl
          (fun s hs => visitChildren_Prep o env hrt children 0 s hwk hs) hst
      · obtain ⟨hnj, hwks⟩ := WfE_plain k as ks hw hke hkf
        have hkp : ∀ j, kidPos k .normal j = .normal := fun j => kidPos_normal k j hnj
        have hsz : sizeOf ks < sizeOf (Node.mk k as ks) := by simp; omega
        by_cases hks : k = .stmts
        · -- a statement list: what was created inside is declared inside
          subst hks
          have ih := visitKids_NoJsx o env hrt ks .stmts 0 st.clearPending hwks hkp (clearPending_ok st hst)
          have hd := drainInto_ok _ _ ih.1 ih.2
          simp only [visit]
          exact ⟨by simpa [NoJsx, isJsxSyntax] using hd.1, restore_ok _ _ _ hd.2 hst.consts hst.vars⟩
        · by_cases hka : k = .arrow
          · subst hka
            cases ks with
            | nil =>
              rw [visit_arrow_nil]
              have hkh := kindHook_plain o env hrt .arrow as [] st (by decide) hst
              rw [show kindHook o env (.mk .arrow as []) st = (.mk .arrow as [], (kindHook o env (.mk .arrow as []) st).2) from Prod.ext hkh.1 rfl]
              have he := exprHook_NoJsx o env .normal (.mk .arrow as []) _ (by simp [NoJsx, NoJsxL, isJsxSyntax]) hkh.2
              exact ⟨by rw [he.1]; simp [NoJsx, NoJsxL, isJsxSyntax], he.2⟩
            | cons params rest =>
              simp only [WfEs, Bool.and_eq_true] at hwks
              have hsp : sizeOf params < sizeOf (Node.mk K.arrow as (params :: rest)) := by simp; omega
              have hsr : sizeOf rest < sizeOf (Node.mk K.arrow as (params :: rest)) := by simp; omega
              have hp0 : kidPos .arrow .normal 0 = .normal := hkp 0
              have h1 := visit_NoJsx o env hrt params st hwks.1 hst
              have h2 := visitKids_NoJsx o env hrt rest .arrow 1 (visit o env params .normal st).2.clearPending hwks.2 hkp
                (clearPending_ok _ h1.2)
              simp only [visit, hp0]
              have hnode : NoJsx (Node.mk .arrow as ((visit o env params .normal st).1 ::
                  (visitKids o env .arrow .normal 1 rest (visit o env params .normal st).2.clearPending).1)) = true := by
                simp [NoJsx, isJsxSyntax, h1.1, h2.1]
              have hd := drainArrow_ok _ _ hnode h2.2
              have hrest := restore_ok (drainArrow (Node.mk .arrow as ((visit o env params .normal st).1 ::
                  (visitKids o env .arrow .normal 1 rest (visit o env params .normal st).2.clearPending).1))
                  (visitKids o env .arrow .normal 1 rest (visit o env params .normal st).2.clearPending).2).2
                ((visit o env params .normal st).2.injectingConsts ++ (drainArrow (Node.mk .arrow as ((visit o env params .normal st).1 ::
                  (visitKids o env .arrow .normal 1 rest (visit o env params .normal st).2.clearPending).1))
                  (visitKids o env .arrow .normal 1 rest (visit o env params .normal st).2.clearPending).2).2.injectingConsts)
                ((visit o env params .normal st).2.injectingVars ++ (drainArrow (Node.mk .arrow as ((visit o env params .normal st).1 ::
                  (visitKids o env .arrow .normal 1 rest (visit o env params .normal st).2.clearPending).1))
                  (visitKids o env .arrow .normal 1 rest (visit o env params .normal st).2.clearPending).2).2.injectingVars)
                hd.2 (by simp [h1.2.consts, hd.2.consts]) (by simp [h1.2.vars, hd.2.vars])
              have he := exprHook_NoJsx o env .normal _ _ hd.1 hrest
              exact ⟨by rw [he.1]; exact hd.1, he.2⟩
          · -- any other node: its children, then the hooks (which leave it alone)
            have ih := visitKids_NoJsx o env hrt ks k 0 st hwks hkp hst
            rw [visit_generic o env k as ks .normal st hks hka]
            have hko : k ≠ .jsxOpening := by intro h; subst h; simp [isJsxSyntax] at hnj
            have hkh := kindHook_plain o env hrt k as (visitKids o env k .normal 0 ks st).1 (visitKids o env k .normal 0 ks st).2 hko ih.2
            rw [show kindHook o env (.mk k as (visitKids o env k .normal 0 ks st).1) (visitKids o env k .normal 0 ks st).2
                = (.mk k as (visitKids o env k .normal 0 ks st).1, (kindHook o env (.mk k as (visitKids o env k .normal 0 ks st).1) (visitKids o env k .normal 0 ks st).2).2)
                from Prod.ext hkh.1 rfl]
            have he := exprHook_plain o env .normal k as (visitKids o env k .normal 0 ks st).1 _ (Or.inr ⟨hke, hkf⟩) hkh.2
            rw [show exprHook o env .normal (.mk k as (visitKids o env k .normal 0 ks st).1) (kindHook o env (.mk k as (visitKids o env k .normal 0 ks st).1) (visitKids o env k .normal 0 ks st).2).2
                = (.mk k as (visitKids o env k .normal 0 ks st).1, (exprHook o env .normal (.mk k as (visitKids o env k .normal 0 ks st).1) (kindHook o env (.mk k as (visitKids o env k .normal 0 ks st).1) (visitKids o env k .normal 0 ks st).2).2).2)
                from Prod.ext he.1 rfl]
            exact ⟨by simp [NoJsx, hnj, ih.1], he.2⟩
termination_by n => sizeOf n
theorem visitKids_NoJsx (o : Opts) (env : Env) (hrt : o.resolveType = false) : ∀ (ks : List Node) (k : K) (i : Nat) (st : St),
    WfEs ks = true → (∀ j, kidPos k .normal j = .normal) → StOk st →
    NoJsxL (visitKids o env k .normal i ks st).1 = true ∧ StOk (visitKids o env k .normal i ks st).2
  | [], _, _, st, _, _, hst => by simp [visitKids, hst]
  | c :: cs, k, i, st, hw, hk, hst => by
    simp only [WfEs, Bool.and_eq_true] at hw
    have h1 := visit_NoJsx o env hrt c st hw.1 hst
    have h2 := visitKids_NoJsx o env hrt cs k (i + 1) (visit o env c .normal st).2 hw.2 hk h1.2
    simp only [visitKids, hk]
    exact ⟨by simp [h1.1, h2.1], h2.2⟩
termination_by ks => sizeOf ks
theorem visitAttrs_Prep (o : Opts) (env : Env) (hrt : o.resolveType = false) : ∀ (attrs : List Node) (i : Nat) (st : St),
    WfAs attrs = true → StOk st →
    PrepAttrs (visitKids o env .list .normal i attrs st).1 = true ∧ StOk (visitKids o env .list .normal i attrs st).2
  | [], _, st, _, hst => by simp [visitKids, PrepAttrs, hst]
  | a :: rest, i, st, hw, hst => by
    simp only [WfAs, Bool.and_eq_true] at hw
    have hpi : kidPos .list .normal i = .normal := by simp [kidPos]
    simp only [visitKids, hpi]
    -- the attribute itself
    have ha : PrepAttr (visit o env a .normal st).1 = true ∧ StOk (visit o env a .normal st).2 := by
      have hwa := hw.1
      unfold WfA at hwa
      split at hwa
      · -- name = value
        rename_i as name v
        simp only [Bool.and_eq_true] at hwa
        have hsv : sizeOf v < sizeOf (Node.mk K.jsxAttr as [name, v] :: rest) := by simp; omega
        have hV := visitValue_Post o env hrt v st hwa.2 hst
        rw [visit_generic o env .jsxAttr as [name, v] .normal st (by decide) (by decide)]
        have hkids : visitKids o env .jsxAttr .normal 0 [name, v] st = ([name, (visit o env v .jsxKid st).1], (visit o env v .jsxKid st).2) := by
          have hp0 : kidPos .jsxAttr .normal 0 = .normal := by simp [kidPos]
          have hp1 : kidPos .jsxAttr .normal (0 + 1) = .jsxKid := by simp [kidPos]
          simp only [visitKids, hp0, hp1, visit_inert o env name .normal st hwa.1]
        rw [hkids]
        have hkh := kindHook_plain o env hrt .jsxAttr as [name, (visit o env v .jsxKid st).1] (visit o env v .jsxKid st).2 (by decide) hV.2
        rw [show kindHook o env (.mk .jsxAttr as [name, (visit o env v .jsxKid st).1]) (visit o env v .jsxKid st).2
            = (.mk .jsxAttr as [name, (visit o env v .jsxKid st).1], (kindHook o env (.mk .jsxAttr as [name, (visit o env v .jsxKid st).1]) (visit o env v .jsxKid st).2).2)
            from Prod.ext hkh.1 rfl]
        have he := exprHook_plain o env .normal .jsxAttr as [name, (visit o env v .jsxKid st).1] _ (Or.inr ⟨by decide, by decide⟩) hkh.2
        exact ⟨by rw [he.1]; exact PrepAttr_of_PostV as name _ hV.1, he.2⟩
      · -- a spread
        rename_i as e
        have hse : sizeOf e < sizeOf (Node.mk K.spreadElement as [e] :: rest) := by simp; omega
        have hE := visit_NoJsx o env hrt e st hwa hst
        have hw1 := visit_wrap1 o env hrt .spreadElement as e .normal st (Or.inr (Or.inr rfl)) hE.2
        exact ⟨by rw [hw1.1]; simpa [PrepAttr] using hE.1, hw1.2⟩
      · cases hwa
    have hR := visitAttrs_Prep o env hrt rest (i + 1) (visit o env a .normal st).2 hw.2 ha.2
    exact ⟨by simp [PrepAttrs, ha.1, hR.1], hR.2⟩
termination_by attrs => sizeOf attrs
theorem visitValue_Post (o : Opts) (env : Env) (hrt : o.resolveType = false) : ∀ (v : Node) (st : St), WfV v = true → StOk st →
    PostV (visit o env v .jsxKid st).1 = true ∧ StOk (visit o env v .jsxKid st).2
  | .mk k as ks, st, hw, hst => by
    unfold WfV at hw
    split at hw
    · rename_i heq
      rw [heq, visit_inert o env _ .jsxKid st (by simp [Inert, InertL, inertKind])]
      exact ⟨by simp [PostV, StrictValOk], hst⟩
    · rename_i heq
      rw [heq, visit_inert o env _ .jsxKid st (by simp [Inert, InertL, inertKind])]
      exact ⟨by simp [PostV, StrictValOk], hst⟩
    · rename_i as' e heq
      have hse : sizeOf e < 1 + sizeOf k + sizeOf as + sizeOf ks := by
        have := congrArg sizeOf heq; simp at this; omega
      have hE := visit_NoJsx o env hrt e st hw hst
      have hw1 := visit_wrap1 o env hrt .jsxExprContainer as' e .jsxKid st (Or.inl rfl) hE.2
      rw [heq]
      exact ⟨by rw [hw1.1]; simp [PostV, StrictValOk, hE.1], hw1.2⟩
    · rename_i as' ks' heq
      obtain ⟨oas, nameN, las, attrs, ta, cas, children, cl, hks, htag, hn, hta, hcl, hwa, hwk⟩ := WfE_element_shape as' ks' hw
      subst hks
      have hs1 : sizeOf attrs < 1 + sizeOf k + sizeOf as + sizeOf ks := by
        have := congrArg sizeOf heq; simp at this; omega
      have hs2 : sizeOf children < 1 + sizeOf k + sizeOf as + sizeOf ks := by
        have := congrArg sizeOf heq; simp at this; omega
      rw [heq]
      obtain ⟨ks2, h1, h2, h3⟩ := visit_element_jsxKid o env hrt as' oas las cas nameN ta cl attrs children st htag hn hta hcl
        (fun s hs => visitAttrs_Prep o env hrt attrs 0 s hwa hs) (fun s hs => visitChildren_Prep o env hrt children 0 s hwk hs) hst
      exact ⟨by rw [h1]; simpa [PostV] using h2, h3⟩
    · rename_i as' ks' heq
      obtain ⟨op, cas, children, cl, hks, hop, hcl, hwk⟩ := WfE_fragment_shape as' ks' hw
      subst hks
      have hs2 : sizeOf children < 1 + sizeOf k + sizeOf as + sizeOf ks := by
        have := congrArg sizeOf heq; simp at this; omega
      rw [heq]
      obtain ⟨ks2, h1, h2, h3⟩ := visit_fragment_jsxKid o env hrt as' cas op cl children st hop hcl
        (fun s hs => visitChildren_Prep o env hrt children 0 s hwk hs) hst
      exact ⟨by rw [h1]; simpa [PostV] using h2, h3⟩
    · cases hw
termination_by v => sizeOf v
theorem visitChildren_Prep (o : Opts) (env : Env) (hrt : o.resolveType = false) : ∀ (cs : List Node) (i : Nat) (st : St),
    WfKs cs = true → StOk st →
    PrepKids (visitKids o env .list .childList i cs st).1 = true ∧ StOk (visitKids o env .list .childList i cs st).2
  | [], _, st, _, hst => by simp [visitKids, PrepKids, hst]
  | c :: rest, i, st, hw, hst => by
    simp only [WfKs, Bool.and_eq_true] at hw
    have hpi : kidPos .list .childList i = .jsxKid := by simp [kidPos]
    simp only [visitKids, hpi]
    have hc : PrepKid (visit o env c .jsxKid st).1 = true ∧ StOk (visit o env c .jsxKid st).2 := by
      have hwc := hw.1
      unfold WfK at hwc
      split at hwc
      · rw [visit_inert o env _ .jsxKid st (by simp [Inert, InertL, inertKind])]
        exact ⟨by simp [PrepKid], hst⟩
      · rename_i as e
        split at hwc
        · rw [visit_inert o env _ .jsxKid st (by simp [Inert, InertL, inertKind])]
          exact ⟨by simp [PrepKid], hst⟩
        · rename_i hne
          have hse : sizeOf e < sizeOf (Node.mk K.jsxExprContainer as [e] :: rest) := by simp; omega
          have hE := visit_NoJsx o env hrt e st hwc hst
          have hw1 := visit_wrap1 o env hrt .jsxExprContainer as e .jsxKid st (Or.inl rfl) hE.2
          refine ⟨?_, hw1.2⟩
          rw [hw1.1]
          unfold PrepKid
          split
          · rfl
          · exact hE.1
      · rename_i as e
        have hse : sizeOf e < sizeOf (Node.mk K.jsxSpreadChild as [e] :: rest) := by simp; omega
        have hE := visit_NoJsx o env hrt e st hwc hst
        have hw1 := visit_wrap1 o env hrt .jsxSpreadChild as e .jsxKid st (Or.inr (Or.inl rfl)) hE.2
        exact ⟨by rw [hw1.1]; simpa [PrepKid] using hE.1, hw1.2⟩
      · rename_i as' ks'
        obtain ⟨oas, nameN, las, attrs, ta, cas, children, cl, hks, htag, hn, hta, hcl, hwa, hwk⟩ := WfE_element_shape as' ks' hwc
        subst hks
        have hs1 : sizeOf attrs < sizeOf (Node.mk K.jsxElement as' [.mk .jsxOpening oas [nameN, .mk .list las attrs, ta], .mk .list cas children, cl] :: rest) := by simp; omega
        have hs2 : sizeOf children < sizeOf (Node.mk K.jsxElement as' [.mk .jsxOpening oas [nameN, .mk .list las attrs, ta], .mk .list cas children, cl] :: rest) := by simp; omega
        obtain ⟨ks2, h1, h2, h3⟩ := visit_element_jsxKid o env hrt as' oas las cas nameN ta cl attrs children st htag hn hta hcl
          (fun s hs => visitAttrs_Prep o env hrt attrs 0 s hwa hs) (fun s hs => visitChildren_Prep o env hrt children 0 s hwk hs) hst
        exact ⟨by rw [h1]; simpa [PrepKid] using h2, h3⟩
      · rename_i as' ks'
        obtain ⟨op, cas, children, cl, hks, hop, hcl, hwk⟩ := WfE_fragment_shape as' ks' hwc
        subst hks
        have hs2 : sizeOf children < sizeOf (Node.mk K.jsxFragment as' [op, .mk .list cas children, cl] :: rest) := by simp; omega
        obtain ⟨ks2, h1, h2, h3⟩ := visit_fragment_jsxKid o env hrt as' cas op cl children st hop hcl
          (fun s hs => visitChildren_Prep o env hrt children 0 s hwk hs) hst
        exact ⟨by rw [h1]; simpa [PrepKid] using h2, h3⟩
      · cases hwc
    have hR := visitChildren_Prep o env hrt rest (i + 1) (visit o env c .jsxKid st).2 hw.2 hc.2
    exact ⟨by simp [PrepKids, hc.1, hR.1], hR.2⟩
termination_by cs => sizeOf cs
end


/-! ### module level -/

theorem scanPragmas_ok (env : Env) : StOk (scanPragmas env {}) := by
  have hbase : StOk ({} : St) := ⟨by simp, rfl, rfl, rfl, rfl⟩
  unfold scanPragmas
  split
  · exact hbase
  · have : ∀ (cs : List (List String)) (st : St), StOk st →
        StOk (cs.foldl (fun st cs => match pragmaOfComments cs with | some p => { st with pragma := some p } | none => st) st) := by
      intro cs
      induction cs with
      | nil => intro st h; exact h
      | cons c rest ih =>
        intro st h
        simp only [List.foldl]
        apply ih
        split
        · exact ⟨h.imports, h.ton, h.slotH, h.vars, h.consts⟩
        · exact h
    exact this _ _ hbase

theorem buildSlotHelper_NoJsx (h iv : Node) (st : St) (hh : NoJsx h = true) (hiv : NoJsx iv = true) :
    NoJsx (buildSlotHelper h iv st).1 = true := by
  simp [buildSlotHelper, St.fresh, NoJsx, NoJsxL, isJsxSyntax, hh, hiv, nj_bindingIdent]

theorem buildSlotHelper_ok (h iv : Node) (st : St) (hst : StOk st) : StOk (buildSlotHelper h iv st).2 := by
  simp only [buildSlotHelper, St.fresh]
  exact ⟨hst.imports, hst.ton, hst.slotH, hst.vars, hst.consts⟩

theorem importsDecl_NoJsx (st : St) (hst : StOk st) :
    NoJsx (nImportDecl (st.imports.map fun p => .mk .importSpec ["false"] [p.2, nQuoteIdent p.1]) "vue") = true := by
  simp only [nImportDecl, NoJsx, isJsxSyntax, Bool.not_false, Bool.true_and, nj_cons, nj_list, nj_str, nj_none, nj_nil, Bool.and_true]
  apply NoJsxL_map
  intro p hp
  simp [NoJsx, NoJsxL, isJsxSyntax, hst.imports p hp]

theorem tonDecl_NoJsx (h : Node) (hh : NoJsx h = true) :
    NoJsx (nImportDecl [.mk .importDefault [] [h]] "@vue/babel-helper-vue-transform-on") = true := by
  simp [nImportDecl, NoJsx, NoJsxL, isJsxSyntax, hh]

theorem finishModule_NoJsx (items : List Node) (st : St) (hi : NoJsxL items = true) (hst : StOk st) :
    NoJsxL (finishModule items st).1 = true := by
  unfold finishModule
  have hd := drainInto_ok items st hi hst
  generalize drainInto items st = r at hd
  obtain ⟨items1, st1⟩ := r
  simp only at hd ⊢
  cases hs : st1.slotHelper with
  | none =>
    simp only
    have himp := importsDecl_NoJsx st1 hd.2
    cases ht : st1.transformOnHelper with
    | none =>
      simp only
      split
      · simp [himp, hd.1]
      · exact hd.1
    | some h' =>
      have hh' : NoJsx h' = true := by have := hd.2.ton; rw [ht] at this; exact this
      simp only
      split
      · simp [himp, hd.1, tonDecl_NoJsx h' hh']
      · simp [hd.1, tonDecl_NoJsx h' hh']
  | some h =>
    have hh : NoJsx h = true := by have := hd.2.slotH; rw [hs] at this; exact this
    have hiv := importFromVue_ok st1 "isVNode" hd.2
    have hb := buildSlotHelper_NoJsx h (st1.importFromVue "isVNode").1 (st1.importFromVue "isVNode").2 hh hiv.1
    have hst2 := buildSlotHelper_ok h (st1.importFromVue "isVNode").1 (st1.importFromVue "isVNode").2 hiv.2
    simp only
    have himp := importsDecl_NoJsx _ hst2
    cases ht : (buildSlotHelper h (st1.importFromVue "isVNode").1 (st1.importFromVue "isVNode").2).2.transformOnHelper with
    | none =>
      simp only
      split
      · simp [himp, hd.1, hb]
      · simp [hd.1, hb]
    | some h' =>
      have hh' : NoJsx h' = true := by have := hst2.ton; rw [ht] at this; exact this
      simp only
      split
      · simp [himp, hd.1, hb, tonDecl_NoJsx h' hh']
      · simp [hd.1, hb, tonDecl_NoJsx h' hh']

/-- **C07 for whole modules** (resolveType off): a well-formed module — JSX anywhere, nested to any depth, in any
    statement, function, class, arrow or attribute position — is transformed into a tree that contains NO JSX syntax. -/
theorem C07_module_NoJsx (o : Opts) (env : Env) (hrt : o.resolveType = false) (as las : List String) (items rest : List Node)
    (hi : WfEs items = true) (hr : WfEs rest = true) :
    NoJsx (transformModule o env (.mk .module as (.mk .list las items :: rest))).1 = true := by
  simp only [transformModule, hrt, Bool.false_eq_true, if_false]
  have h0 := scanPragmas_ok env
  have h1 := visitKids_NoJsx o env hrt items .list 0 (scanPragmas env {}) hi (fun j => by simp [kidPos]) h0
  have h2 := visitKids_NoJsx o env hrt rest .module 1 _ hr (fun j => by simp [kidPos]) h1.2
  have h3 := finishModule_NoJsx _ _ h1.1 h2.2
  simp [NoJsx, isJsxSyntax, h3, h2.1]


/-- example builder: `<tag attrs>kids</tag>` -/
def exEl (tag : String) (attrs kids : List Node) : Node :=
  .mk .jsxElement [] [.mk .jsxOpening [] [nIdent tag "u", nList attrs, nNone], nList kids, nNone]

-- non-vacuity: `const v = <Comp a=<b/> {...x}>{f(<i/>)}<></></Comp>` is well-formed
example :
    WfEs [.mk .varDecl ["const", "false"] [nList [.mk .declarator ["false"] [nIdent "v" "b2",
      exEl "Comp" [.mk .jsxAttr [] [nIdentName "a", exEl "b" [] []], .mk .spreadElement [] [nIdent "x" "u"]]
        [.mk .jsxExprContainer [] [nCall (nIdent "f" "u") [nArg (exEl "i" [] [])]],
         .mk .jsxFragment [] [nNone, nList [], nNone]]]]]] = true := by
  simp [WfEs, WfE, WfAs, WfA, WfV, WfKs, WfK, exEl, nList, nIdent, nIdentName, nNone, nCall, nArg, TagOk, Inert, InertL, inertKind, isJsxSyntax]

end VueJsx
