/-
  C07 — Output is plain valid ECMAScript/TypeScript, or an error was reported.
  Theorems about the model: what replaces JSX is never itself a JSX node.  (That the printed text re-parses is
  supported by execution only: SWC's printer and parser are not modelled.)
-/
import VueJsx.Visitor
import VueJsx.Props.C15

namespace VueJsx
open Text

/-- node kinds that are JSX syntax -/
def isJsxSyntax (k : K) : Bool :=
  match k with
  | .jsxElement | .jsxFragment | .jsxOpening | .jsxClosing | .jsxOpeningFrag | .jsxClosingFrag | .jsxAttr
  | .jsxExprContainer | .jsxEmpty | .jsxSpreadChild | .jsxMember | .jsxNsName | .jsxText => true
  | _ => false

/-- At an expression position every JSX element and fragment is REPLACED by its lowering. -/
theorem C07_expression_replaced (o : Opts) (env : Env) (as : List String) (ks : List Node) (st : St) :
    exprHook o env .normal (.mk .jsxElement as ks) st = trElement o env (.mk .jsxElement as ks) st
    ∧ exprHook o env .normal (.mk .jsxFragment as ks) st = trFragment o env (.mk .jsxFragment as ks) st := by
  simp [exprHook]

/-- The lowering of a fragment is a call (of the vnode factory), never a JSX node. -/
theorem C07_fragment_is_call (o : Opts) (env : Env) (n : Node) (st : St) :
    (trFragment o env n st).1.kind = .call ∨ (trFragment o env n st).1.kind = .ill := by
  unfold trFragment
  split
  · left; simp [nCall, Node.kind]
  · right; simp [Node.kind]

/-- The lowering of an element is a call (of the vnode factory or of withDirectives), never a JSX node. -/
theorem C07_element_is_call (o : Opts) (env : Env) (n : Node) (st : St) :
    (trElement o env n st).1.kind = .call ∨ (trElement o env n st).1.kind = .ill := by
  unfold trElement
  split
  · left
    simp only
    split <;> simp [nCall, Node.kind]
  · right; simp [Node.kind]

/-- every identifier registered for a vue import is an identifier node (holds initially, kept by `importFromVue`) -/
def ImportsAreIdents (st : St) : Prop := ∀ p ∈ st.imports, p.2.kind = .ident

theorem importFromVue_is_ident (st : St) (item : String) (h : ImportsAreIdents st) :
    (st.importFromVue item).1.kind = .ident := by
  unfold St.importFromVue
  split
  · rename_i p hp
    exact h p (List.mem_of_find?_eq_some hp)
  · simp [St.fresh, nIdent, Node.kind]

theorem mem_insertSorted (k : String) (v : Node) (l : List (String × Node)) (p : String × Node)
    (h : p ∈ insertSorted k v l) : p = (k, v) ∨ p ∈ l := by
  induction l with
  | nil => simp [insertSorted] at h; exact Or.inl h
  | cons x rest ih =>
    obtain ⟨k', v'⟩ := x
    simp only [insertSorted] at h
    split at h
    · simp at h
      rcases h with h | h | h
      · exact Or.inl h
      · exact Or.inr (by simp [h])
      · exact Or.inr (by simp [h])
    · simp at h
      rcases h with h | h
      · exact Or.inr (by simp [h])
      · rcases ih h with h | h
        · exact Or.inl h
        · exact Or.inr (by simp [h])

theorem importFromVue_keeps (st : St) (item : String) (h : ImportsAreIdents st) :
    ImportsAreIdents (st.importFromVue item).2 := by
  unfold St.importFromVue
  split
  · exact h
  · intro p hp
    simp only [St.fresh] at hp
    rcases mem_insertSorted _ _ _ _ hp with hp | hp
    · subst hp; simp [nIdent, Node.kind]
    · exact h p hp

/-- The tag expression of an identifier tag is a string, an identifier or a call — never JSX syntax. -/
theorem C07_ident_tag_not_jsx (env : Env) (as : List String) (ks : List Node) (st : St) (hinv : ImportsAreIdents st) :
    isJsxSyntax (transformTag env (.mk .ident as ks) st).1.kind = false := by
  unfold transformTag
  split
  · split
    · simp [nStr, Node.kind, isJsxSyntax]
    · split
      · rw [importFromVue_is_ident st _ hinv]; rfl
      · split
        · simp [nStr, Node.kind, isJsxSyntax]
        · split
          · simp [nCall, Node.kind, isJsxSyntax]
          · simp [nIdent, Node.kind, isJsxSyntax]
  · rename_i heq; simp at heq
  · rename_i heq; simp at heq
  · simp [Node.kind, isJsxSyntax]

/-- A member tag becomes a member expression, a namespaced tag a string literal. -/
theorem C07_member_and_namespaced_tags (env : Env) (as : List String) (ks : List Node) (a b : Node) (st : St) :
    (transformTag env (.mk .jsxNsName as [a, b]) st).1.kind = .str
    ∧ ((transformTag env (.mk .jsxMember as ks) st).1.kind = .member ∨ (transformTag env (.mk .jsxMember as ks) st).1 = .mk .jsxMember as ks) := by
  constructor
  · simp [transformTag, nStr, Node.kind]
  · simp only [transformTag]
    unfold jsxMemberToExpr
    split
    · left; simp [Node.kind]
    · right; rfl

mutual
/-- a well-formed member tag: `Identifier . name` or `(member tag) . name` -/
def WfMember : Node → Bool
  | .mk .jsxMember _ [obj, .mk .ident _ []] =>
    (match obj with
     | .mk .ident _ _ => true
     | .mk .jsxMember as ks => WfMember (.mk .jsxMember as ks)
     | _ => false)
  | _ => false
end

mutual
/-- no JSX syntax anywhere in the tree -/
def NoJsx : Node → Bool
  | .mk k _ ks => !isJsxSyntax k && NoJsxL ks
def NoJsxL : List Node → Bool
  | [] => true
  | n :: ns => NoJsx n && NoJsxL ns
end

/-- the property of a lowered member tag: the identifier name, or the computed string when it is not one -/
theorem memberProp_no_jsx (pas : List String) :
    NoJsx (match (Node.mk .ident pas [] : Node) with
      | .mk .ident (name :: _) _ => if isValidPropIdent name then Node.mk .ident pas [] else nComputed (nStr name)
      | p => p) = true := by
  cases pas with
  | nil => simp [NoJsx, NoJsxL, isJsxSyntax]
  | cons name rest =>
    simp only
    split <;> simp [NoJsx, NoJsxL, isJsxSyntax, nComputed, nStr]

/-- For EVERY well-formed member tag, of any depth, the lowered tag contains no JSX syntax at all. -/
theorem C07_member_tag_no_jsx : ∀ (m : Node), WfMember m = true → NoJsx (jsxMemberToExpr m) = true
  | .mk k as ks, h => by
    unfold WfMember at h
    split at h
    · rename_i as1 obj pas heq
      injection heq with hk ha hks
      subst hk hks
      have hp := memberProp_no_jsx pas
      split at h
      · rename_i ias iks
        unfold jsxMemberToExpr
        simp only
        split
        · simp only [NoJsx, NoJsxL, isJsxSyntax, Bool.not_false, Bool.true_and, Bool.and_true]; exact hp
        · simp only [NoJsx, NoJsxL, isJsxSyntax, Bool.not_false, Bool.true_and, Bool.and_true]; exact hp
        · rename_i hne; exact absurd rfl (hne _ _)
      · rename_i mas mks
        have ih := C07_member_tag_no_jsx (.mk .jsxMember mas mks) h
        unfold jsxMemberToExpr
        simp only [NoJsx, NoJsxL, isJsxSyntax, Bool.not_false, Bool.true_and, Bool.and_true, ih]
        exact hp
      · simp at h
    · simp at h

/-- Modifier keys are always printable: a string literal, or an identifier name that is a valid property identifier. -/
theorem C07_modifier_keys_printable (mods : List String) (q : Bool) (obj : Node) (h : transformModifiers mods q = some obj) :
    ∃ props, obj = nObject props ∧ ∀ p ∈ props, ∃ m, (p = nKV (nStr m) (nBool true)) ∨ (isValidPropIdent m = true ∧ p = nKV (nIdentName m) (nBool true)) := by
  unfold transformModifiers at h
  split at h
  · simp at h
  · simp only [Option.some.injEq] at h
    refine ⟨_, h.symm, ?_⟩
    intro p hp
    simp at hp
    obtain ⟨m, _, rfl⟩ := hp
    refine ⟨m, ?_⟩
    cases q with
    | true => left; simp
    | false =>
      cases hv : isValidPropIdent m with
      | true => right; simp [hv]
      | false => left; simp [hv]

/-- The pragma callee extracted from a comment is always ONE non-empty word (C15_scan_result_is_one_word). -/
theorem C07_pragma_callee_one_word (c name : List Char) (h : pragmaOfComment c = some name) :
    name ≠ [] ∧ ∀ x ∈ name, isUnicodeWs x = false :=
  C15_scan_result_is_one_word c name h

end VueJsx
