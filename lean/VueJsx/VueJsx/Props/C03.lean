/-
  C03 — Component children become the slots the source denotes.
  Theorems about `finishChildren` / `wrapChildren` / `buildSlotHelper` of the model.
-/
import VueJsx.Visitor

namespace VueJsx

/-- No children: the `v-slots` value (or `null`) is what the component receives. -/
theorem C03_no_children (o : Opts) (isComp : Bool) (slots : Option Node) (flag : Nat) (st : St) :
    finishChildren o [] isComp slots flag st = ((match slots with | some s => s | none => nNull), st) := by
  cases slots <;> simp [finishChildren]

/-- Two or more children of a component: a lazily evaluated `default` slot returning them in order,
    with the `v-slots` entries beside it. -/
theorem C03_multiple_wrapped (o : Opts) (e1 e2 : Node) (rest : List Node) (slots : Option Node) (flag : Nat) (st : St) :
    finishChildren o (e1 :: e2 :: rest) true slots flag st = (wrapChildren o (e1 :: e2 :: rest) flag slots, st) := by
  simp [finishChildren]

/-- the `default` slot is a parameterless arrow returning the children array, first in the slots object -/
theorem C03_wrap_shape (o : Opts) (elems : List Node) (flag : Nat) (ho : o.optimize = false) :
    wrapChildren o elems flag none = nObject [nKV (nIdentName "default") (nArrow [] (nArray elems))] := by
  simp [wrapChildren, slotProps, ho]

/-- `v-slots={{a: f}}` entries are merged beside `default`. -/
theorem C03_wrap_vslots_literal (o : Opts) (elems sp : List Node) (flag : Nat) (as1 as2 : List String)
    (ho : o.optimize = false) :
    wrapChildren o elems flag (some (.mk .object as1 [.mk .list as2 sp]))
      = nObject (nKV (nIdentName "default") (nArrow [] (nArray elems)) :: sp) := by
  simp [wrapChildren, slotProps, ho]

/-- A single function child is the `default` slot itself, with the `v-slots` entries beside it. -/
theorem C03_function_child (o : Opts) (isComp : Bool) (as : List String) (ks : List Node) (aas : List String)
    (slots : Option Node) (flag : Nat) (st : St) :
    finishChildren o [.mk .arg aas [.mk .arrow as ks]] isComp slots flag st
      = (nObject (nKV (nIdentName "default") (.mk .arrow as ks) :: slotProps slots), st) := by
  simp [finishChildren]

/-- ... and `v-slots` entries are never lost beside a function child: with `v-slots={{a: f}}` the slots object is
    `{default: fn, a: f}`; without `v-slots` it is `{default: fn}`. -/
theorem C03_function_child_keeps_vslots (o : Opts) (isComp : Bool) (as as1 as2 : List String) (ks sp : List Node) (aas : List String)
    (flag : Nat) (st : St) :
    finishChildren o [.mk .arg aas [.mk .arrow as ks]] isComp (some (.mk .object as1 [.mk .list as2 sp])) flag st
      = (nObject (nKV (nIdentName "default") (.mk .arrow as ks) :: sp), st)
    ∧ finishChildren o [.mk .arg aas [.mk .arrow as ks]] isComp none flag st
      = (nObject [nKV (nIdentName "default") (.mk .arrow as ks)], st) := by
  simp [finishChildren, slotProps]

/-- A single object-literal child is the slots object, with the `v-slots` entries beside its own. -/
theorem C03_object_child (o : Opts) (isComp : Bool) (as las aas : List String) (props : List Node)
    (slots : Option Node) (flag : Nat) (st : St) (ho : o.optimize = false) :
    finishChildren o [.mk .arg aas [.mk .object as [.mk .list las props]]] isComp slots flag st
      = (nObject (props ++ slotProps slots), st) := by
  simp [finishChildren, ho]

/-- A single identifier child of a component is decided at runtime: `_isSlot(x) ? x : {default: () => [x]}`. -/
theorem C03_ident_runtime (o : Opts) (ias aas : List String) (iks : List Node) (slots : Option Node) (flag : Nat)
    (st : St) (h : Node) (he : o.enableObjectSlots = true) (hl : st.assignmentLeft = none) (hh : st.slotHelper = some h) :
    finishChildren o [.mk .arg aas [.mk .ident ias iks]] true slots flag st
      = (nCond (nCall h [nArg (.mk .ident ias iks)]) (.mk .ident ias iks)
          (wrapChildren o [.mk .arg aas [.mk .ident ias iks]] flag slots), st) := by
  simp [finishChildren, he, buildIife, hl, hh]

/-- With enableObjectSlots off a single identifier child is always wrapped. -/
theorem C03_ident_disabled (o : Opts) (ias aas : List String) (iks : List Node) (slots : Option Node) (flag : Nat)
    (st : St) (he : o.enableObjectSlots = false) (hl : st.assignmentLeft = none) :
    finishChildren o [.mk .arg aas [.mk .ident ias iks]] true slots flag st
      = (wrapChildren o [.mk .arg aas [.mk .ident ias iks]] flag slots, st) := by
  simp [finishChildren, he, buildIife, hl]

/-- A single (user-written) call child is evaluated exactly once: its value goes into a fresh temporary inside the
    runtime test, and both branches use the temporary. -/
theorem C03_call_once (o : Opts) (cas aas : List String) (cks : List Node) (slots : Option Node) (flag : Nat)
    (st : St) (h : Node) (he : o.enableObjectSlots = true) (hl : st.assignmentLeft = none)
    (hh : st.slotHelper = some h) :
    let slot := (genSlotIdent st).1
    (finishChildren o [.mk .arg aas [.mk .call ("usr" :: cas) cks]] true slots flag st).1
      = nCond (nCall h [nArg (nAssignParen slot (.mk .call ("usr" :: cas) cks))]) slot
          (wrapChildren o [nArg slot] flag slots) := by
  simp [finishChildren, he, genSlotIdent, St.fresh, buildIife, hl, hh]

/-- A generated (synthetic) call — e.g. a nested element's vnode call — is an ordinary child: always wrapped. -/
theorem C03_generated_call_wrapped (o : Opts) (cas aas : List String) (cks : List Node) (slots : Option Node)
    (flag : Nat) (st : St) :
    finishChildren o [.mk .arg aas [.mk .call ("syn" :: cas) cks]] true slots flag st
      = (wrapChildren o [.mk .arg aas [.mk .call ("syn" :: cas) cks]] flag slots, st) := by
  simp [finishChildren]

/-! ### the runtime test `_isSlot` -/

/-- what the helper can observe of a runtime value -/
structure RtVal where
  typeofStr : String      -- `typeof v`
  toStringTag : String    -- `({}).toString.call(v)`
  isVNode : Bool          -- Vue's `isVNode(v)`

/-- evaluator for the fragment of JavaScript the helper body uses, applied to the parameter's runtime value -/
def evalHelper (s isVNode : Node) (v : RtVal) : Node → Option (Sum Bool String)
  | .mk .str (x :: _) _ => some (.inr x)
  | .mk .unary ["typeof"] [a] => if a == s then some (.inr v.typeofStr) else none
  | .mk .unary ["!"] [a] =>
    match evalHelper s isVNode v a with
    | some (.inl b) => some (.inl (!b))
    | _ => none
  | .mk .bin ["==="] [a, b] =>
    match evalHelper s isVNode v a, evalHelper s isVNode v b with
    | some (.inr x), some (.inr y) => some (.inl (x == y))
    | _, _ => none
  | .mk .bin ["||"] [a, b] =>
    match evalHelper s isVNode v a, evalHelper s isVNode v b with
    | some (.inl x), some (.inl y) => some (.inl (x || y))
    | _, _ => none
  | .mk .bin ["&&"] [a, b] =>
    match evalHelper s isVNode v a, evalHelper s isVNode v b with
    | some (.inl x), some (.inl y) => some (.inl (x && y))
    | _, _ => none
  | .mk .call _ [callee, .mk .list _ [.mk .arg _ [a]], _] =>
    if a == s then
      if callee == isVNode then some (.inl v.isVNode)
      else if callee == nMember (nMember (nObject []) "toString") "call" then some (.inr v.toStringTag)
      else none
    else none
  | _ => none

def helperBody : Node → Option Node
  | .mk .fnDecl _ [_, _, _, .mk .block _ [.mk .stmts _ [.mk .ret _ [b]]], _, _] => some b
  | _ => none

def helperParam : Node → Option Node
  | .mk .fnDecl _ [_, .mk .list _ [.mk .param _ [_, .mk .ident as _]], _, _, _, _] => some (.mk .ident as [])
  | _ => none

mutual
theorem Node.beq_refl : ∀ n : Node, Node.beq n n = true
  | .mk k as ks => by simp [Node.beq, Node.beqList_refl ks]
theorem Node.beqList_refl : ∀ ns : List Node, Node.beqList ns ns = true
  | [] => by simp [Node.beqList]
  | n :: ns => by simp [Node.beqList, Node.beq_refl n, Node.beqList_refl ns]
end

theorem Node.beq_self (n : Node) : (n == n) = true := Node.beq_refl n

/-- The emitted helper returns true exactly for functions and for plain objects that are not vnodes. -/
theorem C03_helper (hn hb vn vb : String) (st : St) (v : RtVal) :
    let decl := (buildSlotHelper (nIdent hn hb) (nIdent vn vb) st).1
    (helperBody decl).bind (fun b => (helperParam decl).bind (fun s => evalHelper s (nIdent vn vb) v b))
      = some (.inl (v.typeofStr == "function" || (v.toStringTag == "[object Object]" && !v.isVNode))) := by
  simp only [buildSlotHelper, St.fresh, helperBody, helperParam, nBlock, nReturn, nBindingIdent, nIdent, Option.bind,
    nStmts, nBin, nUnary, nStr, nCall, nArg, nList, nNone, nMember, nObject, nIdentName]
  simp [evalHelper, Node.beq_self, nMember, nObject, nIdentName, nIdent, nList]
  simp [BEq.beq, Node.beq, Node.beqList]

/-- `v-slots` takes ANY expression (`this.$slots`, `getSlots()`, `c ? a : b`), not only an identifier or an object literal
    (fix a570771: other values were dropped without a diagnostic and never evaluated). -/
theorem C03_vslots_any_expression (cas : List String) (e : Node) (hne : ∀ a k, e ≠ .mk .jsxEmpty a k) :
    parseVSlots (.mk .jsxExprContainer cas [e]) = .slots (some e) := by
  unfold parseVSlots containerExpr
  simp only

end VueJsx
