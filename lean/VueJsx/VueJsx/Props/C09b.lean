/-
  C09 (continued) — idempotence as a theorem.
  The output of the transform contains no JSX (C07_module_NoJsx), hence is left unchanged by a second pass
  (C09_module_identity).
-/
import VueJsx.Props.C07
import VueJsx.Props.C09

namespace VueJsx

mutual
theorem JsxFree_of_NoJsx : ∀ (n : Node), NoJsx n = true → JsxFree n = true
  | .mk k as ks, h => by
    simp only [NoJsx, Bool.and_eq_true, Bool.not_eq_true'] at h
    simp only [JsxFree, Bool.and_eq_true, Bool.not_eq_true']
    refine ⟨?_, JsxFreeL_of_NoJsxL ks h.2⟩
    cases k <;> simp_all [isJsxKind, isJsxSyntax]
theorem JsxFreeL_of_NoJsxL : ∀ (l : List Node), NoJsxL l = true → JsxFreeL l = true
  | [], _ => rfl
  | n :: ns, h => by
    simp only [NoJsxL, Bool.and_eq_true] at h
    simp only [JsxFreeL, Bool.and_eq_true]
    exact ⟨JsxFree_of_NoJsx n h.1, JsxFreeL_of_NoJsxL ns h.2⟩
end

/-- the transform keeps the shape of a module (a list of items, then the remaining fields) -/
theorem transformModule_shape (o : Opts) (env : Env) (as las : List String) (items rest : List Node) :
    ∃ items' rest', (transformModule o env (.mk .module as (.mk .list las items :: rest))).1 = .mk .module as (.mk .list las items' :: rest') := by
  simp only [transformModule]
  exact ⟨_, _, rfl⟩

/-- **Idempotence** (resolveType off): transforming the output of the transform again changes nothing — for every
    well-formed module, every option set and every set of comments (the same or another on the second pass). -/
theorem C09_idempotent (o o' : Opts) (env env' : Env) (hrt : o.resolveType = false) (hrt' : o'.resolveType = false)
    (as las : List String) (items rest : List Node) (hi : WfEs items = true) (hr : WfEs rest = true) :
    (transformModule o' env' (transformModule o env (.mk .module as (.mk .list las items :: rest))).1).1
      = (transformModule o env (.mk .module as (.mk .list las items :: rest))).1 := by
  have hnj := C07_module_NoJsx o env hrt as las items rest hi hr
  obtain ⟨items', rest', hshape⟩ := transformModule_shape o env as las items rest
  rw [hshape] at hnj ⊢
  have h1 : NoJsxL items' = true ∧ NoJsxL rest' = true := by
    simpa [NoJsx, NoJsxL, isJsxSyntax] using hnj
  exact C09_module_identity o' env' hrt' as las items' rest' (JsxFreeL_of_NoJsxL _ h1.1) (JsxFreeL_of_NoJsxL _ h1.2)

end VueJsx
