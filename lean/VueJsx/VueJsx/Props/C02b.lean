/-
  C02 (continued) — the text rule at FULL strength: for ALL strings the cleaned text is the JSX rule applied to the
  text's lines.  `toLines` is a specification-level decomposition of a text into its first line and (line break, line)
  pairs (`glue` puts it back together: `toLines_spec`), written independently of the scanner `splitAux` that models
  `util::transform_text`; `splitLines_glue` shows that the scanner splits exactly at `\n`, `\r` and `\r\n`.
-/
import VueJsx.Lemmas.TextLemmas
import VueJsx.Element
namespace VueJsx
open Text

/-- the three JSX line breaks -/
inductive Brk | lf | cr | crlf
deriving DecidableEq, Repr

def Brk.chars : Brk → List Char
  | .lf => ['\n'] | .cr => ['\r'] | .crlf => ['\r', '\n']

/-- a text written as its lines: the first line, then (line break, line) pairs -/
def glue (l0 : List Char) : List (Brk × List Char) → List Char
  | [] => l0
  | (b, l) :: rest => l0 ++ b.chars ++ glue l rest

def headIsLf : List (Brk × List Char) → Bool
  | (.lf, _) :: _ => true
  | _ => false

/-- the one ambiguity of the notation: a lone CR, an EMPTY line, then LF is the text `\r\n`, which is ONE break -/
def unambiguous : List (Brk × List Char) → Bool
  | [] => true
  | p :: rest => !(p.1 == .cr && p.2.isEmpty && headIsLf rest) && unambiguous rest

def noBreak (l : List Char) : Prop := ∀ c ∈ l, isBreak c = false

theorem splitAux_append_noBreak (b : Bool) (l : List Char) (h : noBreak l) (t : List Char) (hl : l ≠ []) :
    splitAux b (l ++ t) = match splitAux false t with
      | [] => [l]
      | p :: ps => (l ++ p) :: ps := by
  induction l generalizing b with
  | nil => exact absurd rfl hl
  | cons x xs ih =>
    have hx : isBreak x = false := h x (by simp)
    have hxn : (x == '\n') = false := by simp [isBreak] at hx; simp [hx.1]
    have hxr : (x == '\r') = false := by simp [isBreak] at hx; simp [hx.2]
    have hxs : noBreak xs := fun c hc => h c (by simp [hc])
    by_cases hxs0 : xs = []
    · subst hxs0
      simp only [List.cons_append, List.nil_append, splitAux, hxn, hxr]
      cases hsp : splitAux false t with
      | nil => exact absurd hsp (splitAux_ne_nil _ _)
      | cons p ps => simp [consHead]
    · simp only [List.cons_append, splitAux, hxn, hxr]
      rw [ih false hxs hxs0]
      cases hsp : splitAux false t with
      | nil => exact absurd hsp (splitAux_ne_nil _ _)
      | cons p ps => simp [consHead]
      all_goals simp

theorem unambiguous_tail (p : Brk × List Char) (rest : List (Brk × List Char)) (h : unambiguous (p :: rest) = true) :
    unambiguous rest = true := by
  simp [unambiguous] at h; exact h.2

theorem unambiguous_cr_empty (rest : List (Brk × List Char)) (h : unambiguous ((.cr, []) :: rest) = true) :
    ∀ l r, rest ≠ (.lf, l) :: r := by
  intro l r hr; subst hr; simp [unambiguous, headIsLf] at h

/-- the start condition of the scanner: directly after a CR an LF would be swallowed -/
def okStart (b : Bool) (l0 : List Char) (rest : List (Brk × List Char)) : Prop :=
  b = true → l0 = [] → ∀ l r, rest ≠ (.lf, l) :: r

theorem splitAux_glue (rest : List (Brk × List Char)) : ∀ (b : Bool) (l0 : List Char),
    noBreak l0 → (∀ p ∈ rest, noBreak p.2) → unambiguous rest = true → okStart b l0 rest →
    splitAux b (glue l0 rest) = l0 :: rest.map Prod.snd := by
  induction rest with
  | nil => intro b l0 h0 _ _ _; simpa [glue] using splitAux_no_break b l0 h0
  | cons p rest ih =>
    obtain ⟨br, l⟩ := p
    intro b l0 h0 hr hu hs
    have hl : noBreak l := hr (br, l) (by simp)
    have hr' : ∀ p ∈ rest, noBreak p.2 := fun p hp => hr p (by simp [hp])
    have hu' := unambiguous_tail _ _ hu
    -- the break itself, read from a state `b'` in which it is not swallowed
    have brk : ∀ b' : Bool, (b' = true → br ≠ .lf) →
        splitAux b' (br.chars ++ glue l rest) = [] :: l :: rest.map Prod.snd := by
      intro b' hb'
      cases br with
      | lf =>
        have : b' = false := by cases b' <;> simp_all
        subst this
        simp only [Brk.chars, List.cons_append, List.nil_append, splitAux]
        simp [ih false l hl hr' hu' (by intro h; cases h)]
      | cr =>
        simp only [Brk.chars, List.cons_append, List.nil_append, splitAux]
        have : splitAux true (glue l rest) = l :: rest.map Prod.snd := by
          apply ih true l hl hr' hu'
          intro _ hl0; subst hl0; exact unambiguous_cr_empty rest hu
        simp [this]
      | crlf =>
        simp only [Brk.chars, List.cons_append, List.nil_append, splitAux]
        simp [ih false l hl hr' hu' (by intro h; cases h)]
    by_cases hl0 : l0 = []
    · subst hl0
      simp only [glue, List.nil_append, List.map_cons]
      apply brk b
      intro hb hbr; subst hbr
      exact hs hb rfl l rest rfl
    · simp only [glue, List.append_assoc, List.map_cons]
      rw [splitAux_append_noBreak b l0 h0 _ hl0, brk false (by intro h; cases h)]
      simp

/-- **Lines are split on line breaks.**  A text written as lines without breaks joined by `\n`, `\r` or `\r\n`
    is split into exactly those lines. -/
theorem splitLines_glue (l0 : List Char) (rest : List (Brk × List Char))
    (h0 : noBreak l0) (hr : ∀ p ∈ rest, noBreak p.2) (hu : unambiguous rest = true) :
    splitLines (glue l0 rest) = l0 :: rest.map Prod.snd :=
  splitAux_glue rest false l0 h0 hr hu (by intro h; cases h)

/-- the JSX rule on a text given as its lines: tabs as spaces, position-dependent trimming, whitespace-only
    lines dropped, the rest joined by one space -/
def jsxRule (lines : List (List Char)) : List Char :=
  joinSp ((trimLines true (lines.map (List.map tabToSpace))).filter (fun l => !l.isEmpty))

def mapLines (rest : List (Brk × List Char)) : List (Brk × List Char) :=
  rest.map (fun p => (p.1, p.2.map tabToSpace))

theorem map_glue (l0 : List Char) (rest : List (Brk × List Char)) :
    (glue l0 rest).map tabToSpace = glue (l0.map tabToSpace) (mapLines rest) := by
  induction rest generalizing l0 with
  | nil => simp [glue, mapLines]
  | cons p rest ih =>
    obtain ⟨b, l⟩ := p
    have hb : b.chars.map tabToSpace = b.chars := by cases b <;> simp [Brk.chars, tabToSpace]
    simp only [glue, List.map_append, hb, ih l, mapLines, List.map_cons]

theorem noBreak_map (l : List Char) (h : noBreak l) : noBreak (l.map tabToSpace) := by
  intro c hc
  obtain ⟨d, hd, rfl⟩ := List.mem_map.1 hc
  have := h d hd
  unfold tabToSpace; split
  · simp [isBreak]
  · exact this

theorem headIsLf_map (rest : List (Brk × List Char)) : headIsLf (mapLines rest) = headIsLf rest := by
  cases rest with
  | nil => rfl
  | cons p rest => obtain ⟨b, l⟩ := p; cases b <;> rfl

theorem unambiguous_map (rest : List (Brk × List Char)) : unambiguous (mapLines rest) = unambiguous rest := by
  induction rest with
  | nil => rfl
  | cons p rest ih =>
    have h := headIsLf_map rest
    simp only [mapLines] at ih h
    simp [mapLines, unambiguous, ih, h]

/-- **C02, the text rule at full strength on texts given by their lines.** -/
theorem cleanText_glue (l0 : List Char) (rest : List (Brk × List Char))
    (h0 : noBreak l0) (hr : ∀ p ∈ rest, noBreak p.2) (hu : unambiguous rest = true) :
    cleanText (glue l0 rest) = jsxRule (l0 :: rest.map Prod.snd) := by
  unfold cleanText jsxRule
  rw [map_glue, splitLines_glue _ _ (noBreak_map _ h0) _ (by rw [unambiguous_map]; exact hu)]
  · simp [mapLines, Function.comp_def]
  · intro p hp
    obtain ⟨q, hq, rfl⟩ := List.mem_map.1 hp
    exact noBreak_map _ (hr q hq)

/-- every text IS such a list of lines: the decomposition (specification level, independent of `splitAux`) -/
def toLines : List Char → List Char × List (Brk × List Char)
  | [] => ([], [])
  | x :: xs =>
    let r := toLines xs
    if x == '\n' then ([], (.lf, r.1) :: r.2)
    else if x == '\r' then
      (match r.1, r.2 with
       | [], (.lf, l) :: rest => ([], (.crlf, l) :: rest)
       | _, _ => ([], (.cr, r.1) :: r.2))
    else (x :: r.1, r.2)

theorem toLines_spec (s : List Char) :
    glue (toLines s).1 (toLines s).2 = s ∧ noBreak (toLines s).1 ∧ (∀ p ∈ (toLines s).2, noBreak p.2) ∧
      unambiguous (toLines s).2 = true := by
  induction s with
  | nil => simp [toLines, glue, noBreak, unambiguous]
  | cons x xs ih =>
    obtain ⟨hg, h1, h2, h3⟩ := ih
    unfold toLines
    by_cases hn : x = '\n'
    · subst hn
      refine ⟨by simp [glue, Brk.chars, hg], by simp [noBreak], ?_, ?_⟩
      · intro p hp; simp at hp; rcases hp with rfl | hp; exact h1; exact h2 p hp
      · simpa [unambiguous] using h3
    · by_cases hr : x = '\r'
      · subst hr
        simp only [show ('\r' == '\n') = false by decide, Bool.false_eq_true, if_false, beq_self_eq_true, if_true]
        split
        · rename_i l rest e1 e2
          rw [e1, e2] at hg; rw [e2] at h2 h3
          refine ⟨by simpa [glue, Brk.chars] using hg, by simp [noBreak], ?_, ?_⟩
          · intro p hp; simp at hp; rcases hp with rfl | hp
            · exact h2 (.lf, l) (by simp)
            · exact h2 p (by simp [hp])
          · have := unambiguous_tail _ _ h3
            simpa [unambiguous] using this
        · rename_i hne
          refine ⟨by simp [glue, Brk.chars, hg], by simp [noBreak], ?_, ?_⟩
          · intro p hp; simp at hp; rcases hp with rfl | hp; exact h1; exact h2 p hp
          · simp only [unambiguous, h3, Bool.and_true, Bool.not_eq_true']
            cases h1' : (toLines xs).1 with
            | cons c cs => simp
            | nil =>
              cases h2' : (toLines xs).2 with
              | nil => simp [headIsLf]
              | cons q qs =>
                obtain ⟨b, l⟩ := q
                cases b with
                | lf => exact absurd h2' (hne l qs h1')
                | cr => simp [headIsLf]
                | crlf => simp [headIsLf]
      · have hxn : (x == '\n') = false := by simp [hn]
        have hxr : (x == '\r') = false := by simp [hr]
        simp only [hxn, hxr, Bool.false_eq_true, if_false]
        refine ⟨by cases h : (toLines xs).2 <;> simp_all [glue], ?_, h2, h3⟩
        intro c hc; simp at hc; rcases hc with rfl | hc
        · simp [isBreak, hn, hr]
        · exact h1 c hc

/-- **C02 for ALL strings**: the cleaned text is the JSX rule applied to the text's lines. -/
theorem C02_text_is_the_jsx_rule (s : List Char) :
    cleanText s = jsxRule ((toLines s).1 :: (toLines s).2.map Prod.snd) := by
  obtain ⟨hg, h1, h2, h3⟩ := toLines_spec s
  conv => lhs; rw [← hg]
  exact cleanText_glue _ _ h1 h2 h3

/-! instances (tests, labelled as tests): the decomposition and the rule on concrete texts -/
example : toLines " a\r\n   b\t".toList = (" a".toList, [(.crlf, "   b\t".toList)]) := by decide
example : toLines "x\r\r\ny".toList = ("x".toList, [(.cr, []), (.crlf, "y".toList)]) := by decide
example : jsxRule [" a".toList, "   b\t".toList] = " a b ".toList := by decide
example : unambiguous [(.cr, []), (.lf, [])] = false := by decide

/-! ### the child list -/

/-- the child shapes the parser produces -/
def childOk : Node → Bool
  | .mk .jsxText (_ :: _) _ => true
  | .mk .jsxExprContainer _ [_] => true
  | .mk .jsxSpreadChild _ [_] => true
  | .mk .jsxElement _ _ => true
  | .mk .jsxFragment _ _ => true
  | _ => false

/-- **Children are delivered in source order, each contributing on its own**: lowering the children `a ++ b` is lowering `a`,
    then lowering `b` in the state `a` left behind, and the results are concatenated - for every list of (parser-shaped)
    children, every option set and every state. -/
theorem C02_children_in_order (o : Opts) (env : Env) (a b : List Node) (st : St) (ha : ∀ c ∈ a, childOk c = true) :
    trChildList o env (a ++ b) st =
      ((trChildList o env a st).1 ++ (trChildList o env b (trChildList o env a st).2).1,
       (trChildList o env b (trChildList o env a st).2).2) := by
  induction a generalizing st with
  | nil => simp [trChildList]
  | cons c rest ih =>
    have hr : ∀ c ∈ rest, childOk c = true := fun x hx => ha x (by simp [hx])
    have hc : childOk c = true := ha c (by simp)
    obtain ⟨k, as, ks⟩ := c
    unfold childOk at hc
    split at hc <;> try (simp at hc; done)
    case h_2 =>
      rename_i e heq; cases heq
      obtain ⟨ek, eas, eks⟩ := e
      simp only [List.cons_append]
      by_cases hk : ek = .jsxEmpty
      · subst hk
        rw [trChildList, trChildList]
        exact ih _ hr
      · have hne : ∀ (atoms : List String) (kids : List Node), ¬Node.mk ek eas eks = Node.mk K.jsxEmpty atoms kids := by
          intro a k h; cases h; exact hk rfl
        rw [trChildList, trChildList]
        · simp only
          repeat' split
          all_goals simp [ih _ hr]
        · exact hne
        · exact hne
    all_goals
      rename_i heq; cases heq
      simp only [List.cons_append]
      rw [trChildList, trChildList]
      simp only
      repeat' split
      all_goals simp [ih _ hr]

example : ∀ c ∈ [Node.mk .jsxText ["a "] [], .mk .jsxExprContainer [] [.mk .ident ["x", "u"] []]], childOk c = true := by simp [childOk]

end VueJsx
