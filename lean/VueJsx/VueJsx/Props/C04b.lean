/-
  C04 (continued) — "exactly one runtime directive binding per directive attribute, in source order, under the written
  name", for WHOLE attribute lists of any length (induction over the fold of `transform_attrs`), every option set and state.
-/
import VueJsx.Props.C13b

namespace VueJsx
open Text

/-- SPECIFICATION (property text): the binding one attribute contributes to its vnode's directive list - the written name
    (prefix removed, first letter lower-cased) for every `v-name`/`vName` attribute other than v-html / v-text (props),
    v-slots (slots) and v-model, which is a `model` binding on a form element and a prop on a component.  Nothing else
    (plain attributes, spreads) contributes a binding. -/
def bindingNameOf (isComp : Bool) (a : Node) : Option String :=
  match a with
  | .mk .jsxAttr _ [nameN, _] =>
    if isDirectiveAttrName (attrNameOf nameN) then
      let d := (dirNameParts (attrNameOf nameN)).1
      if d == "html" || d == "text" || d == "slots" then none
      else if d == "model" then (if isComp then none else some "model")
      else some d
    else none
  | _ => none

theorem vmodelStep_directive_names (o : Opts) (c : Bool) (a t m : Option Node) (v : Node) (acc : AttrAcc) :
    (vmodelStep o c a t m v acc).directives.map (·.1)
      = acc.directives.map (·.1) ++ (if c then [] else ["model"]) := by
  unfold vmodelStep vmodelStepK
  rcases hk : vmodelArgKind a with ⟨tag, s, e⟩
  rcases tag with _ | _ | tag <;> cases c <;> cases m <;> simp

theorem parseVModel_is_vmodel (value : Node) (c : Bool) (argument : Option Node) (rest : List String) (st : St) :
    ∃ a t m v, (parseVModel value c argument rest st).1 = .vmodel a t m v := by
  rw [parseVModel_eq]
  unfold vmodelFinish
  exact ⟨_, _, _, _, rfl⟩

/-- one fold step adds exactly the binding the specification names - and keeps every earlier one -/
theorem attrStep_binding_names (o : Opts) (c : Bool) (a : Node) (l : Option Node) (acc : AttrAcc) (st : St) :
    (attrStep o c a l acc st).1.directives.map (·.1)
      = acc.directives.map (·.1) ++ (bindingNameOf c a).toList := by
  by_cases hA : ∃ as nameN valueN, a = .mk .jsxAttr as [nameN, valueN]
  · obtain ⟨as, nameN, valueN, rfl⟩ := hA
    by_cases hd : isDirectiveAttrName (attrNameOf nameN) = true
    · rw [attrStep_directive _ _ _ _ _ _ _ _ hd, parseDirective_eq]
      simp only [bindingNameOf, hd, if_true]
      by_cases h1 : ((dirNameParts (attrNameOf nameN)).1 == "html") = true
      · simp [h1]
      by_cases h2 : ((dirNameParts (attrNameOf nameN)).1 == "text") = true
      · simp [h1, h2]
      by_cases h3 : ((dirNameParts (attrNameOf nameN)).1 == "model") = true
      · obtain ⟨a', t, m, v, hv⟩ := parseVModel_is_vmodel valueN c ((dirNameParts (attrNameOf nameN)).2.1.map nStr)
          (dirNameParts (attrNameOf nameN)).2.2 st
        simp only [h1, h2, h3, if_true, hv, Bool.false_eq_true, if_false, Bool.or_self]
        rw [vmodelStep_directive_names]
        have e3 : (dirNameParts (attrNameOf nameN)).1 = "model" := by simpa using h3
        cases c <;> simp [e3]
      by_cases h4 : ((dirNameParts (attrNameOf nameN)).1 == "slots") = true
      · simp [h1, h2, h3, h4, parseVSlots]
      · simp [h1, h2, h3, h4, normalFinish]
    · have hd' : isDirectiveAttrName (attrNameOf nameN) = false := by simpa using hd
      have hflags : ∀ (n : String) (vN : Node) (t : Bool) (acc : AttrAcc),
          (plainAttrFlags c n vN t acc).directives = acc.directives := by
        intro n vN t acc
        unfold plainAttrFlags coverStep hydrationStep
        repeat' split
        all_goals rfl
      simp only [attrStep, bindingNameOf, hd', Bool.false_eq_true, if_false, Option.toList_none, List.append_nil]
      split <;> split <;> (try split) <;> simp [hflags]
  · have hb : bindingNameOf c a = none := by
      unfold bindingNameOf
      split
      · exact absurd ⟨_, _, _, rfl⟩ hA
      · rfl
    rw [hb]
    unfold attrStep
    split
    · exact absurd ⟨_, _, _, rfl⟩ hA
    · simp only [Option.toList_none, List.append_nil]
      repeat' split
      all_goals rfl
    · simp

/-- **C04, whole attribute lists**: the directive bindings of a vnode are, in source order, exactly one per directive
    attribute (as the specification `bindingNameOf` names them) - none lost, none duplicated, none invented. -/
theorem C04_one_binding_per_directive_in_order (o : Opts) (env : Env) (c : Bool) :
    ∀ (attrs : List Node) (acc : AttrAcc) (st : St),
      (trAttrs o env c attrs acc st).1.directives.map (·.1)
        = acc.directives.map (·.1) ++ attrs.filterMap (bindingNameOf c)
  | [], acc, st => by unfold trAttrs; simp
  | a :: rest, acc, st => by
    rw [trAttrs_cons, C04_one_binding_per_directive_in_order o env c rest, attrStep_binding_names]
    cases h : bindingNameOf c a <;> simp [h]

/-- the whole element: `transformAttrs` starts from the empty accumulator -/
theorem C04_element_bindings (o : Opts) (env : Env) (c : Bool) (attrs : List Node) (st : St) :
    (transformAttrs o env attrs c st).1.directives.map (·.1) = attrs.filterMap (bindingNameOf c) := by
  cases attrs with
  | nil => simp [transformAttrs]
  | cons a rest =>
    simp only [transformAttrs]
    have := C04_one_binding_per_directive_in_order o env c (a :: rest) {} st
    simpa using this

/-- the count form of the statement: as many bindings as directive attributes that bind -/
theorem C04_binding_count (o : Opts) (env : Env) (c : Bool) (attrs : List Node) (st : St) :
    (transformAttrs o env attrs c st).1.directives.length = (attrs.filter (fun a => (bindingNameOf c a).isSome)).length := by
  have h := congrArg List.length (C04_element_bindings o env c attrs st)
  rw [List.length_map] at h
  rw [h]
  clear h
  induction attrs with
  | nil => rfl
  | cons a rest ih => cases hb : bindingNameOf c a <;> simp [hb, ih]

/-- the complete binding (name, argument, modifiers, value) of a runtime directive attribute, as a function of the ATTRIBUTE ALONE
    (no visitor state, no neighbouring attribute, no option): `none` for everything that is not a runtime directive other than
    v-model -/
def ownBindingOf (a : Node) : Option (String × Option Node × Option Node × Node) :=
  match a with
  | .mk .jsxAttr _ [nameN, v] =>
    if isDirectiveAttrName (attrNameOf nameN) then
      let p := dirNameParts (attrNameOf nameN)
      if p.1 == "html" || p.1 == "text" || p.1 == "slots" || p.1 == "model" then none
      else
        match normalFinish p.1 (normalTuple v (p.2.1.map nStr) p.2.2) with
        | .normal n arg mods x => some (n, arg, mods, x)
        | _ => none
    else none
  | _ => none

def isVModelAttr (a : Node) : Bool :=
  match a with
  | .mk .jsxAttr _ [nameN, _] => isDirectiveAttrName (attrNameOf nameN) && (dirNameParts (attrNameOf nameN)).1 == "model"
  | _ => false

theorem attrStep_own_binding (o : Opts) (c : Bool) (a : Node) (l : Option Node) (acc : AttrAcc) (st : St)
    (hm : isVModelAttr a = false) :
    (attrStep o c a l acc st).1.directives = acc.directives ++ (ownBindingOf a).toList := by
  by_cases hA : ∃ as nameN valueN, a = .mk .jsxAttr as [nameN, valueN]
  · obtain ⟨as, nameN, valueN, rfl⟩ := hA
    by_cases hd : isDirectiveAttrName (attrNameOf nameN) = true
    · have hm' : ((dirNameParts (attrNameOf nameN)).1 == "model") = false := by
        simpa [isVModelAttr, hd] using hm
      rw [attrStep_directive _ _ _ _ _ _ _ _ hd, parseDirective_eq]
      simp only [ownBindingOf, hd, if_true, hm', Bool.or_false]
      by_cases h1 : ((dirNameParts (attrNameOf nameN)).1 == "html") = true
      · simp [h1]
      by_cases h2 : ((dirNameParts (attrNameOf nameN)).1 == "text") = true
      · simp [h1, h2]
      by_cases h4 : ((dirNameParts (attrNameOf nameN)).1 == "slots") = true
      · simp [h1, h2, h4, parseVSlots]
      · simp only [h1, h2, h4, Bool.false_eq_true, if_false, Bool.or_self]
        unfold normalFinish
        simp
    · have hd' : isDirectiveAttrName (attrNameOf nameN) = false := by simpa using hd
      have hflags : ∀ (n : String) (vN : Node) (t : Bool) (acc : AttrAcc),
          (plainAttrFlags c n vN t acc).directives = acc.directives := by
        intro n vN t acc
        unfold plainAttrFlags coverStep hydrationStep
        repeat' split
        all_goals rfl
      simp only [attrStep, ownBindingOf, hd', Bool.false_eq_true, if_false, Option.toList_none, List.append_nil]
      split <;> split <;> (try split) <;> simp [hflags]
  · have hb : ownBindingOf a = none := by
      unfold ownBindingOf
      split
      · exact absurd ⟨_, _, _, rfl⟩ hA
      · rfl
    rw [hb]
    unfold attrStep
    split
    · exact absurd ⟨_, _, _, rfl⟩ hA
    · simp only [Option.toList_none, List.append_nil]
      repeat' split
      all_goals rfl
    · simp

/-- **C04, complete bindings for whole attribute lists**: on a list without v-model, the vnode's directive bindings - name,
    argument, modifiers AND value - are the concatenation, in source order, of what each directive attribute denotes BY ITSELF:
    no binding depends on the visitor state, on an option, on the host kind or on a neighbouring attribute. -/
theorem C04_bindings_depend_on_own_attribute_only (o : Opts) (env : Env) (c : Bool) :
    ∀ (attrs : List Node) (acc : AttrAcc) (st : St), (∀ a ∈ attrs, isVModelAttr a = false) →
      (trAttrs o env c attrs acc st).1.directives = acc.directives ++ attrs.filterMap ownBindingOf
  | [], acc, st, _ => by unfold trAttrs; simp
  | a :: rest, acc, st, h => by
    rw [trAttrs_cons, C04_bindings_depend_on_own_attribute_only o env c rest _ _ (fun x hx => h x (List.mem_cons_of_mem _ hx)),
      attrStep_own_binding _ _ _ _ _ _ (h a List.mem_cons_self)]
    cases hb : ownBindingOf a <;> simp [hb]


/-- the whole element (`transformAttrs` starts from the empty accumulator): what `withDirectives` receives -/
theorem C04_element_complete_bindings (o : Opts) (env : Env) (c : Bool) (attrs : List Node) (st : St)
    (h : ∀ a ∈ attrs, isVModelAttr a = false) :
    (transformAttrs o env attrs c st).1.directives = attrs.filterMap ownBindingOf := by
  cases attrs with
  | nil => simp [transformAttrs]
  | cons a rest =>
    simp only [transformAttrs]
    simpa using C04_bindings_depend_on_own_attribute_only o env c (a :: rest) {} st h

-- non-vacuity / concrete instances (tests, labelled as tests): five attributes, three bindings on an element, two on a component
private def tA (n : String) : Node := .mk .jsxAttr [] [.mk .ident [n] [], .mk .none [] []]
#guard [tA "v-show", tA "id", tA "vMyDir_a", tA "v-model", tA "v-html", tA "v-slots"].filterMap (bindingNameOf false)
         == ["show", "myDir", "model"]
#guard [tA "v-show", tA "id", tA "vMyDir_a", tA "v-model", tA "v-html", tA "v-slots"].filterMap (bindingNameOf true)
         == ["show", "myDir"]
#guard (transformAttrs {} default [tA "v-show", tA "id", tA "vMyDir_a", tA "v-model", tA "v-html"] false default).1.directives.map (·.1)
         == ["show", "myDir", "model"]

#guard ([tA "v-show", tA "id", tA "vMyDir_a", tA "v-html"].filterMap ownBindingOf).map (·.1) == ["show", "myDir"]
#guard [tA "v-show", tA "id", tA "vMyDir_a", tA "v-html"].all (fun a => !isVModelAttr a)

end VueJsx
