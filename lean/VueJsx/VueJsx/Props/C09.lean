/-
  C09 — Code that is not JSX is left exactly as written; the transform is idempotent.
  The identity theorem is proved by mutual structural induction over the whole traversal (`visit` / `visitKids`),
  for every module, every option set with resolveType off, every position and every quiet visitor state.
-/
import VueJsx.Visitor

namespace VueJsx

def isJsxKind (k : K) : Bool :=
  match k with
  | .jsxElement | .jsxFragment | .jsxOpening => true
  | _ => false

mutual
/-- no JSX element, fragment or opening element anywhere in the tree -/
def JsxFree : Node → Bool
  | .mk k _ ks => !isJsxKind k && JsxFreeL ks
def JsxFreeL : List Node → Bool
  | [] => true
  | n :: ns => JsxFree n && JsxFreeL ns
end

/-- everything the visitor remembers except the two fields a JSX-free traversal may write
    (`assignment_left`, `define_component`) -/
def St.forget (st : St) : St := { st with assignmentLeft := none, defineComponent := none }

/-- nothing pending: no temporaries or captured copies waiting to be declared -/
def Quiet (st : St) : Prop := st.injectingVars = [] ∧ st.injectingConsts = []

theorem quiet_of_forget {a b : St} (h : a.forget = b.forget) (hq : Quiet b) : Quiet a := by
  have h1 : a.forget.injectingVars = b.forget.injectingVars := by rw [h]
  have h2 : a.forget.injectingConsts = b.forget.injectingConsts := by rw [h]
  simp only [St.forget] at h1 h2
  exact ⟨h1.trans hq.1, h2.trans hq.2⟩

theorem drainInto_quiet (items : List Node) (st : St) (hq : Quiet st) : drainInto items st = (items, st) := by
  simp [drainInto, hq.1, hq.2]

theorem drainArrow_quiet (n : Node) (st : St) (hq : Quiet st) : drainArrow n st = (n, st) := by
  unfold drainArrow
  split
  · simp [hq.1, hq.2]
  · rfl

theorem importHook_forget (n : Node) (st : St) : (importHook n st).forget = st.forget := by
  unfold importHook
  split
  · split
    · rfl
    · split <;> rfl
  · rfl

theorem exprHook_jsxfree (o : Opts) (env : Env) (pos : Pos) (k : K) (as : List String) (ks : List Node) (st : St)
    (hk : isJsxKind k = false) :
    (exprHook o env pos (.mk k as ks) st).1 = .mk k as ks ∧ (exprHook o env pos (.mk k as ks) st).2.forget = st.forget := by
  unfold exprHook
  split
  · exact ⟨rfl, rfl⟩
  · split
    · rename_i heq; injection heq with h1; subst h1; simp [isJsxKind] at hk
    · rename_i heq; injection heq with h1; subst h1; simp [isJsxKind] at hk
    · exact ⟨rfl, rfl⟩
    · exact ⟨rfl, rfl⟩

theorem kindHook_identity (o : Opts) (env : Env) (hrt : o.resolveType = false) (k : K) (as : List String) (ks : List Node)
    (st : St) (hk : isJsxKind k = false) :
    (kindHook o env (.mk k as ks) st).1 = .mk k as ks ∧ (kindHook o env (.mk k as ks) st).2.forget = st.forget := by
  unfold kindHook
  split
  · rename_i heq; injection heq with h1; subst h1; simp [isJsxKind] at hk
  · exact ⟨rfl, importHook_forget _ _⟩
  · simp [callHook, hrt]
  · simp [declaratorHook, hrt]
  · exact ⟨rfl, rfl⟩

theorem clearPending_quiet (st : St) (hq : Quiet st) : st.clearPending = st := by
  cases st; simp_all [St.clearPending, Quiet]

theorem restore_quiet (st' : St) (c v : List Node) (hq : Quiet st') (hc : c = []) (hv : v = []) :
    ({ st' with injectingConsts := c, injectingVars := v } : St) = st' := by
  cases st'; simp_all [Quiet]

mutual
/-- THE IDENTITY THEOREM (traversal level): on a JSX-free tree, with resolveType off and nothing pending, the
    visitor returns the tree unchanged and leaves the state as it was up to `assignment_left`/`define_component`. -/
theorem visit_identity (o : Opts) (env : Env) (hrt : o.resolveType = false) :
    ∀ (n : Node) (pos : Pos) (st : St), JsxFree n = true → Quiet st →
      (visit o env n pos st).1 = n ∧ (visit o env n pos st).2.forget = st.forget
  | .mk k as ks, pos, st, hj, hq => by
    have hk : isJsxKind k = false := by
      simp only [JsxFree, Bool.and_eq_true, Bool.not_eq_true'] at hj; exact hj.1
    have hks : JsxFreeL ks = true := by
      simp only [JsxFree, Bool.and_eq_true] at hj; exact hj.2
    unfold visit
    split
    next =>
      -- a statement list
      obtain ⟨ih1, ih2⟩ := visitKids_identity o env hrt ks .stmts pos 0 st hks hq
      have hq' : Quiet (visitKids o env .stmts pos 0 ks st).2 := quiet_of_forget ih2 hq
      simp only [clearPending_quiet st hq, ih1, drainInto_quiet _ _ hq']
      rw [restore_quiet _ _ _ hq' hq.2 hq.1]
      exact ⟨trivial, ih2⟩
    next params rest =>
      -- an arrow function
      simp only [JsxFreeL, Bool.and_eq_true] at hks
      obtain ⟨p1, p2⟩ := visit_identity o env hrt params (kidPos .arrow pos 0) st hks.1 hq
      have hqp : Quiet (visit o env params (kidPos .arrow pos 0) st).2 := quiet_of_forget p2 hq
      obtain ⟨r1, r2⟩ := visitKids_identity o env hrt rest .arrow pos 1 _ hks.2 hqp
      have hqr : Quiet (visitKids o env .arrow pos 1 rest (visit o env params (kidPos .arrow pos 0) st).2).2 := quiet_of_forget r2 hqp
      simp only [p1, clearPending_quiet _ hqp, r1, drainArrow_quiet _ _ hqr]
      have hfin : ({ (visitKids o env .arrow pos 1 rest (visit o env params (kidPos .arrow pos 0) st).2).2 with
            injectingConsts := (visit o env params (kidPos .arrow pos 0) st).2.injectingConsts ++
              (visitKids o env .arrow pos 1 rest (visit o env params (kidPos .arrow pos 0) st).2).2.injectingConsts,
            injectingVars := (visit o env params (kidPos .arrow pos 0) st).2.injectingVars ++
              (visitKids o env .arrow pos 1 rest (visit o env params (kidPos .arrow pos 0) st).2).2.injectingVars } : St)
          = (visitKids o env .arrow pos 1 rest (visit o env params (kidPos .arrow pos 0) st).2).2 := by
        apply restore_quiet _ _ _ hqr
        · simp [hqp.2, hqr.2]
        · simp [hqp.1, hqr.1]
      rw [hfin]
      have he := exprHook_jsxfree o env pos .arrow as (params :: rest)
        (visitKids o env .arrow pos 1 rest (visit o env params (kidPos .arrow pos 0) st).2).2 (by rfl)
      exact ⟨he.1, he.2.trans (r2.trans p2)⟩
    next =>
      obtain ⟨ih1, ih2⟩ := visitKids_identity o env hrt ks k pos 0 st hks hq
      obtain ⟨hk1, hk2⟩ := kindHook_identity o env hrt k as ks (visitKids o env k pos 0 ks st).2 hk
      simp only [ih1]
      generalize hres : kindHook o env (Node.mk k as ks) (visitKids o env k pos 0 ks st).2 = res at hk1 hk2 ⊢
      obtain ⟨rn, rst⟩ := res
      simp only at hk1 hk2
      subst hk1
      have he := exprHook_jsxfree o env pos k as ks rst hk
      exact ⟨he.1, he.2.trans (hk2.trans ih2)⟩
theorem visitKids_identity (o : Opts) (env : Env) (hrt : o.resolveType = false) :
    ∀ (ks : List Node) (k : K) (pos : Pos) (i : Nat) (st : St), JsxFreeL ks = true → Quiet st →
      (visitKids o env k pos i ks st).1 = ks ∧ (visitKids o env k pos i ks st).2.forget = st.forget
  | [], _, _, _, st, _, _ => by simp [visitKids]
  | c :: cs, k, pos, i, st, hj, hq => by
    simp only [JsxFreeL, Bool.and_eq_true] at hj
    have h1 := visit_identity o env hrt c (kidPos k pos i) st hj.1 hq
    have hq1 : Quiet (visit o env c (kidPos k pos i) st).2 := quiet_of_forget h1.2 hq
    have h2 := visitKids_identity o env hrt cs k pos (i + 1) (visit o env c (kidPos k pos i) st).2 hj.2 hq1
    simp only [visitKids]
    exact ⟨by rw [h1.1, h2.1], h2.2.trans h1.2⟩
end

/-- THE IDENTITY THEOREM (module level): a module without JSX, transformed with resolveType off and no pragma
    machinery involved, is returned unchanged — nothing imported, no helper, no temporaries. -/
theorem C09_module_identity (o : Opts) (env : Env) (hrt : o.resolveType = false) (as las : List String)
    (items rest : List Node) (hj : JsxFreeL items = true) (hjr : JsxFreeL rest = true) :
    (transformModule o env (.mk .module as (.mk .list las items :: rest))).1 = .mk .module as (.mk .list las items :: rest) := by
  have hq0 : Quiet (scanPragmas env {}) := by
    have : ∀ (cs : List (List String)) (st : St), Quiet st →
        Quiet (cs.foldl (fun st cs => match pragmaOfComments cs with | some p => { st with pragma := some p } | none => st) st) := by
      intro cs
      induction cs with
      | nil => intro st h; exact h
      | cons c rest ih =>
        intro st h
        simp only [List.foldl]
        apply ih
        split <;> exact h
    unfold scanPragmas
    split
    · exact ⟨rfl, rfl⟩
    · exact this _ _ ⟨rfl, rfl⟩
  have hf0 : ∀ st : St, st.forget = (scanPragmas env {}).forget →
      st.imports = [] ∧ st.slotHelper = none ∧ st.transformOnHelper = none := by
    intro st h
    have e1 : st.forget.imports = (scanPragmas env {}).forget.imports := by rw [h]
    have e2 : st.forget.slotHelper = (scanPragmas env {}).forget.slotHelper := by rw [h]
    have e3 : st.forget.transformOnHelper = (scanPragmas env {}).forget.transformOnHelper := by rw [h]
    have base : (scanPragmas env {}).imports = [] ∧ (scanPragmas env {}).slotHelper = none ∧ (scanPragmas env {}).transformOnHelper = none := by
      have : ∀ (cs : List (List String)) (st : St), (st.imports = [] ∧ st.slotHelper = none ∧ st.transformOnHelper = none) →
          let r := cs.foldl (fun st cs => match pragmaOfComments cs with | some p => { st with pragma := some p } | none => st) st
          (r.imports = [] ∧ r.slotHelper = none ∧ r.transformOnHelper = none) := by
        intro cs
        induction cs with
        | nil => intro st h; exact h
        | cons c rest ih =>
          intro st h
          simp only [List.foldl]
          apply ih
          split <;> exact h
      unfold scanPragmas
      split
      · exact ⟨rfl, rfl, rfl⟩
      · exact this _ _ ⟨rfl, rfl, rfl⟩
    simp only [St.forget] at e1 e2 e3
    exact ⟨e1.trans base.1, e2.trans base.2.1, e3.trans base.2.2⟩
  have h1 := visitKids_identity o env hrt items .list .normal 0 (scanPragmas env {}) hj hq0
  have hq1 := quiet_of_forget h1.2 hq0
  have h2 := visitKids_identity o env hrt rest .module .normal 1 _ hjr hq1
  have hq2 := quiet_of_forget h2.2 hq1
  have hfin := hf0 _ (h2.2.trans h1.2)
  simp only [transformModule, hrt, Bool.false_eq_true, if_false, h1.1, h2.1, finishModule, drainInto_quiet _ _ hq2, hfin.1, hfin.2.1, hfin.2.2]
  simp

-- non-vacuity: a JSX-free tree with assignments, arrows, statement lists and an import from 'vue'
example : JsxFreeL [.mk .importDecl ["false", "evaluation"] [nList [.mk .importSpec ["false"] [nIdent "ref" "b2", nNone]], nStr "vue", nNone],
    .mk .exprStmt [] [.mk .assign ["="] [.mk .ident ["a", "b2"] [nNone], nArrow [] (nBlock [nReturn (nNum 1)])]]] = true := by
  decide

/-! ### identity with resolveType ON: a JSX-free module that does not import `defineComponent` from 'vue' -/

/-- is this node an import declaration that binds Vue's `defineComponent`? -/
def importsDc : Node → Bool
  | .mk .importDecl _ (.mk .list _ specs :: .mk .str (src :: _) _ :: _) => src == "vue" && (importedDefineComponent specs).isSome
  | _ => false

mutual
def NoDcImport : Node → Bool
  | .mk k as ks => !importsDc (.mk k as ks) && NoDcImportL ks
def NoDcImportL : List Node → Bool
  | [] => true
  | n :: ns => NoDcImport n && NoDcImportL ns
end

/-- what a JSX-free traversal may write when nothing binds `defineComponent`: only `assignment_left` -/
def St.forgetA (st : St) : St := { st with assignmentLeft := none }

theorem quiet_of_forgetA {a b : St} (h : a.forgetA = b.forgetA) (hq : Quiet b) : Quiet a := by
  have h1 : a.forgetA.injectingVars = b.forgetA.injectingVars := by rw [h]
  have h2 : a.forgetA.injectingConsts = b.forgetA.injectingConsts := by rw [h]
  simp only [St.forgetA] at h1 h2
  exact ⟨h1.trans hq.1, h2.trans hq.2⟩

theorem dc_of_forgetA {a b : St} (h : a.forgetA = b.forgetA) (hd : b.defineComponent = none) : a.defineComponent = none := by
  have h1 : a.forgetA.defineComponent = b.forgetA.defineComponent := by rw [h]
  simp only [St.forgetA] at h1
  exact h1.trans hd

theorem importHook_noDc (k : K) (as : List String) (ks : List Node) (st : St) (h : importsDc (.mk k as ks) = false) :
    importHook (.mk k as ks) st = st := by
  unfold importHook
  split
  · rename_i heq
    injection heq with h1 h2 h3
    subst h1 h3
    simp only [importsDc, Bool.and_eq_false_iff] at h
    split
    · rfl
    · rename_i hsrc
      rcases h with h | h
      · simp [bne, h] at hsrc
      · split
        · rename_i b hb; simp [hb] at h
        · rfl
  · rfl

theorem exprHook_jsxfreeA (o : Opts) (env : Env) (pos : Pos) (k : K) (as : List String) (ks : List Node) (st : St)
    (hk : isJsxKind k = false) :
    (exprHook o env pos (.mk k as ks) st).1 = .mk k as ks ∧ (exprHook o env pos (.mk k as ks) st).2.forgetA = st.forgetA := by
  unfold exprHook
  split
  · exact ⟨rfl, rfl⟩
  · split
    · rename_i heq; injection heq with h1; subst h1; simp [isJsxKind] at hk
    · rename_i heq; injection heq with h1; subst h1; simp [isJsxKind] at hk
    · exact ⟨rfl, rfl⟩
    · exact ⟨rfl, rfl⟩

/-- with no binding of Vue's `defineComponent` recorded, no call is Vue's -/
theorem isDefineComponentCall_none (st : St) (call : Node) (hd : st.defineComponent = none) :
    isDefineComponentCall st call = false := by
  unfold isDefineComponentCall
  split
  · simp [hd]
  · rfl

theorem kindHook_identity_rt (o : Opts) (env : Env) (k : K) (as : List String) (ks : List Node)
    (st : St) (hk : isJsxKind k = false) (hi : importsDc (.mk k as ks) = false) (hd : st.defineComponent = none) :
    kindHook o env (.mk k as ks) st = (.mk k as ks, st) := by
  unfold kindHook
  split
  · rename_i heq; injection heq with h1; subst h1; simp [isJsxKind] at hk
  · rename_i heq; injection heq with h1 h2 h3; subst h1 h2 h3
    rw [importHook_noDc _ _ _ _ hi]
  · simp only [callHook, isDefineComponentCall_none _ _ hd]
    split <;> rfl
  · simp only [declaratorHook]
    split
    · rfl
    · split
      · simp only [isDefineComponentCall_none _ _ hd]; rfl
      · rfl
  · rfl

mutual
/-- THE IDENTITY THEOREM, resolveType-independent form: on a JSX-free tree that nowhere imports Vue's
    `defineComponent`, for EVERY option set (resolveType on or off, any type registry), with nothing pending and no
    binding recorded, the visitor returns the tree unchanged and changes nothing of its state but `assignment_left`. -/
theorem visit_identity_rt (o : Opts) (env : Env) :
    ∀ (n : Node) (pos : Pos) (st : St), JsxFree n = true → NoDcImport n = true → Quiet st → st.defineComponent = none →
      (visit o env n pos st).1 = n ∧ (visit o env n pos st).2.forgetA = st.forgetA
  | .mk k as ks, pos, st, hj, hi, hq, hd => by
    have hk : isJsxKind k = false := by
      simp only [JsxFree, Bool.and_eq_true, Bool.not_eq_true'] at hj; exact hj.1
    have hks : JsxFreeL ks = true := by
      simp only [JsxFree, Bool.and_eq_true] at hj; exact hj.2
    have hin : importsDc (.mk k as ks) = false := by
      simp only [NoDcImport, Bool.and_eq_true, Bool.not_eq_true'] at hi; exact hi.1
    have his : NoDcImportL ks = true := by
      simp only [NoDcImport, Bool.and_eq_true] at hi; exact hi.2
    unfold visit
    split
    next =>
      obtain ⟨ih1, ih2⟩ := visitKids_identity_rt o env ks .stmts pos 0 st hks his hq hd
      have hq' : Quiet (visitKids o env .stmts pos 0 ks st).2 := quiet_of_forgetA ih2 hq
      simp only [clearPending_quiet st hq, ih1, drainInto_quiet _ _ hq']
      rw [restore_quiet _ _ _ hq' hq.2 hq.1]
      exact ⟨trivial, ih2⟩
    next params rest =>
      simp only [JsxFreeL, Bool.and_eq_true] at hks
      simp only [NoDcImportL, Bool.and_eq_true] at his
      obtain ⟨p1, p2⟩ := visit_identity_rt o env params (kidPos .arrow pos 0) st hks.1 his.1 hq hd
      have hqp : Quiet (visit o env params (kidPos .arrow pos 0) st).2 := quiet_of_forgetA p2 hq
      have hdp := dc_of_forgetA p2 hd
      obtain ⟨r1, r2⟩ := visitKids_identity_rt o env rest .arrow pos 1 _ hks.2 his.2 hqp hdp
      have hqr : Quiet (visitKids o env .arrow pos 1 rest (visit o env params (kidPos .arrow pos 0) st).2).2 := quiet_of_forgetA r2 hqp
      simp only [p1, clearPending_quiet _ hqp, r1, drainArrow_quiet _ _ hqr]
      have hfin : ({ (visitKids o env .arrow pos 1 rest (visit o env params (kidPos .arrow pos 0) st).2).2 with
            injectingConsts := (visit o env params (kidPos .arrow pos 0) st).2.injectingConsts ++
              (visitKids o env .arrow pos 1 rest (visit o env params (kidPos .arrow pos 0) st).2).2.injectingConsts,
            injectingVars := (visit o env params (kidPos .arrow pos 0) st).2.injectingVars ++
              (visitKids o env .arrow pos 1 rest (visit o env params (kidPos .arrow pos 0) st).2).2.injectingVars } : St)
          = (visitKids o env .arrow pos 1 rest (visit o env params (kidPos .arrow pos 0) st).2).2 := by
        apply restore_quiet _ _ _ hqr
        · simp [hqp.2, hqr.2]
        · simp [hqp.1, hqr.1]
      rw [hfin]
      have he := exprHook_jsxfreeA o env pos .arrow as (params :: rest)
        (visitKids o env .arrow pos 1 rest (visit o env params (kidPos .arrow pos 0) st).2).2 (by rfl)
      exact ⟨he.1, he.2.trans (r2.trans p2)⟩
    next =>
      obtain ⟨ih1, ih2⟩ := visitKids_identity_rt o env ks k pos 0 st hks his hq hd
      have hd' := dc_of_forgetA ih2 hd
      have hkh := kindHook_identity_rt o env k as ks (visitKids o env k pos 0 ks st).2 hk hin hd'
      simp only [ih1, hkh]
      have he := exprHook_jsxfreeA o env pos k as ks (visitKids o env k pos 0 ks st).2 hk
      exact ⟨he.1, he.2.trans ih2⟩
theorem visitKids_identity_rt (o : Opts) (env : Env) :
    ∀ (ks : List Node) (k : K) (pos : Pos) (i : Nat) (st : St), JsxFreeL ks = true → NoDcImportL ks = true → Quiet st →
      st.defineComponent = none →
      (visitKids o env k pos i ks st).1 = ks ∧ (visitKids o env k pos i ks st).2.forgetA = st.forgetA
  | [], _, _, _, st, _, _, _, _ => by simp [visitKids]
  | c :: cs, k, pos, i, st, hj, hi, hq, hd => by
    simp only [JsxFreeL, Bool.and_eq_true] at hj
    simp only [NoDcImportL, Bool.and_eq_true] at hi
    have h1 := visit_identity_rt o env c (kidPos k pos i) st hj.1 hi.1 hq hd
    have hq1 : Quiet (visit o env c (kidPos k pos i) st).2 := quiet_of_forgetA h1.2 hq
    have hd1 := dc_of_forgetA h1.2 hd
    have h2 := visitKids_identity_rt o env cs k pos (i + 1) (visit o env c (kidPos k pos i) st).2 hj.2 hi.2 hq1 hd1
    simp only [visitKids]
    exact ⟨by rw [h1.1, h2.1], h2.2.trans h1.2⟩
end


/-! ### module level, every option set -/

theorem ifaceHook_frame (n : Node) (st : St) : ∃ i, ifaceHook n st = { st with interfaces := i } := by
  unfold ifaceHook
  split
  · simp only
    split
    · exact ⟨_, rfl⟩
    · exact ⟨st.interfaces, rfl⟩
    · exact ⟨_, rfl⟩
  · exact ⟨st.interfaces, rfl⟩

theorem aliasHook_frame (n : Node) (st : St) : ∃ a, aliasHook n st = { st with typeAliases := a } := by
  unfold aliasHook
  split
  · simp only
    split
    · exact ⟨_, rfl⟩
    · exact ⟨_, rfl⟩
  · exact ⟨st.typeAliases, rfl⟩

theorem foldl_frame (f : St → Node → St) (hf : ∀ st d, ∃ i a, f st d = { st with interfaces := i, typeAliases := a }) :
    ∀ (ns : List Node) (st : St), ∃ i a, ns.foldl f st = { st with interfaces := i, typeAliases := a }
  | [], st => ⟨st.interfaces, st.typeAliases, rfl⟩
  | d :: rest, st => by
    obtain ⟨i1, a1, h1⟩ := hf st d
    obtain ⟨i2, a2, h2⟩ := foldl_frame f hf rest { st with interfaces := i1, typeAliases := a1 }
    simp only [List.foldl, h1]
    exact ⟨i2, a2, h2⟩

theorem collectTypes_frame (m : Node) (st : St) :
    ∃ i a, collectTypes m st = { st with interfaces := i, typeAliases := a } := by
  unfold collectTypes
  apply foldl_frame
  intro st d
  split
  · obtain ⟨i, hi⟩ := ifaceHook_frame _ st; exact ⟨i, st.typeAliases, hi⟩
  · obtain ⟨a, ha⟩ := aliasHook_frame _ st; exact ⟨st.interfaces, a, ha⟩
  · exact ⟨st.interfaces, st.typeAliases, rfl⟩

/-- THE IDENTITY THEOREM (module level, every option set): a module without JSX that does not import Vue's
    `defineComponent` is returned unchanged whatever the options are — resolveType on or off, whatever types it
    declares, whatever comments it carries. -/
theorem C09_module_identity_all_options (o : Opts) (env : Env) (as las : List String)
    (items rest : List Node) (hj : JsxFreeL items = true) (hjr : JsxFreeL rest = true)
    (hi : NoDcImportL items = true) (hir : NoDcImportL rest = true) :
    (transformModule o env (.mk .module as (.mk .list las items :: rest))).1 = .mk .module as (.mk .list las items :: rest) := by
  -- the state the traversal starts from: pragma scan, then (with resolveType) the type registry; both leave the rest untouched
  have hbase : ∀ st0 : St, (st0.imports = [] ∧ st0.slotHelper = none ∧ st0.transformOnHelper = none ∧ Quiet st0 ∧ st0.defineComponent = none) →
      (visitKids o env .module .normal 1 rest (visitKids o env .list .normal 0 items st0).2).1 = rest
      ∧ (visitKids o env .list .normal 0 items st0).1 = items
      ∧ (finishModule items (visitKids o env .module .normal 1 rest (visitKids o env .list .normal 0 items st0).2).2).1 = items := by
    intro st0 ⟨e1, e2, e3, hq0, hd0⟩
    have h1 := visitKids_identity_rt o env items .list .normal 0 st0 hj hi hq0 hd0
    have hq1 := quiet_of_forgetA h1.2 hq0
    have hd1 := dc_of_forgetA h1.2 hd0
    have h2 := visitKids_identity_rt o env rest .module .normal 1 _ hjr hir hq1 hd1
    have hq2 := quiet_of_forgetA h2.2 hq1
    have hf := h2.2.trans h1.2
    have f1 : (visitKids o env .module .normal 1 rest (visitKids o env .list .normal 0 items st0).2).2.forgetA.imports = st0.forgetA.imports := by rw [hf]
    have f2 : (visitKids o env .module .normal 1 rest (visitKids o env .list .normal 0 items st0).2).2.forgetA.slotHelper = st0.forgetA.slotHelper := by rw [hf]
    have f3 : (visitKids o env .module .normal 1 rest (visitKids o env .list .normal 0 items st0).2).2.forgetA.transformOnHelper = st0.forgetA.transformOnHelper := by rw [hf]
    simp only [St.forgetA] at f1 f2 f3
    refine ⟨h2.1, h1.1, ?_⟩
    simp [finishModule, drainInto_quiet _ _ hq2, f1.trans e1, f2.trans e2, f3.trans e3]
  have hscan : (scanPragmas env {}).imports = [] ∧ (scanPragmas env {}).slotHelper = none ∧ (scanPragmas env {}).transformOnHelper = none
      ∧ Quiet (scanPragmas env {}) ∧ (scanPragmas env {}).defineComponent = none := by
    have : ∀ (cs : List (List String)) (st : St),
        (st.imports = [] ∧ st.slotHelper = none ∧ st.transformOnHelper = none ∧ Quiet st ∧ st.defineComponent = none) →
        let r := cs.foldl (fun st cs => match pragmaOfComments cs with | some p => { st with pragma := some p } | none => st) st
        (r.imports = [] ∧ r.slotHelper = none ∧ r.transformOnHelper = none ∧ Quiet r ∧ r.defineComponent = none) := by
      intro cs
      induction cs with
      | nil => intro st h; exact h
      | cons c rest ih =>
        intro st h
        simp only [List.foldl]
        apply ih
        split
        · exact ⟨h.1, h.2.1, h.2.2.1, ⟨h.2.2.2.1.1, h.2.2.2.1.2⟩, h.2.2.2.2⟩
        · exact h
    unfold scanPragmas
    split
    · exact ⟨rfl, rfl, rfl, ⟨rfl, rfl⟩, rfl⟩
    · exact this _ _ ⟨rfl, rfl, rfl, ⟨rfl, rfl⟩, rfl⟩
  have hstart : ∀ st0 : St, st0 = (if o.resolveType then collectTypes (.mk .module as (.mk .list las items :: rest)) (scanPragmas env {}) else scanPragmas env {}) →
      (st0.imports = [] ∧ st0.slotHelper = none ∧ st0.transformOnHelper = none ∧ Quiet st0 ∧ st0.defineComponent = none) := by
    intro st0 h
    subst h
    split
    · obtain ⟨i, a, hc⟩ := collectTypes_frame (.mk .module as (.mk .list las items :: rest)) (scanPragmas env {})
      rw [hc]
      exact ⟨hscan.1, hscan.2.1, hscan.2.2.1, ⟨hscan.2.2.2.1.1, hscan.2.2.2.1.2⟩, hscan.2.2.2.2⟩
    · exact hscan
  obtain ⟨b1, b2, b3⟩ := hbase _ (hstart _ rfl)
  simp only [transformModule, b1, b2, b3]

-- non-vacuity: a JSX-free module with a type alias, an import from 'vue' that is NOT defineComponent, and a call named defineComponent
example : NoDcImportL [.mk .importDecl ["false", "evaluation"] [nList [.mk .importSpec ["false"] [nIdent "ref" "b2", nNone]], nStr "vue", nNone],
    .mk .tsAlias [] [nIdent "T" "b2", nNone, .mk .tsKeyword ["string"] []],
    .mk .exprStmt [] [.mk .call ["usr"] [nIdent "defineComponent" "u", nList [], nNone]]] = true := by
  decide

end VueJsx
