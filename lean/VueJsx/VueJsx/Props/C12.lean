/-
  C12 — The optimize option changes hints only, never what is rendered.
-/
import VueJsx.Visitor
import VueJsx.Sem

namespace VueJsx

/-- The analysis and lowering of ONE attribute does not look at `optimize`: the props expression, the directives and
    the v-slots value are built identically (only the separately returned patch flags / dynamic-prop list and the
    hints inside nested vnode calls are what `optimize` adds). -/
theorem C12_attrs_blind (o : Opts) (b : Bool) (isComp : Bool) (a : Node) (lowered : Option Node) (acc : AttrAcc) (st : St) :
    attrStep { o with optimize := b } isComp a lowered acc st = attrStep o isComp a lowered acc st := rfl

/-- ... and neither does the assembly of the props expression. -/
theorem C12_assemble_blind (o : Opts) (b : Bool) (props mergeArgs : List Node) (st : St) :
    assembleProps { o with optimize := b } props mergeArgs st = assembleProps o props mergeArgs st := rfl

/-- Under optimize the wrapped slots object is the un-optimised one plus exactly one trailing `_` entry. -/
theorem C12_wrap_adds_only_hint (o : Opts) (elems : List Node) (flag : Nat) (slots : Option Node) :
    ∃ props, wrapChildren { o with optimize := false } elems flag slots = nObject props
      ∧ wrapChildren { o with optimize := true } elems flag slots = nObject (props ++ [nKV (nIdentName "_") (nNum flag)]) := by
  unfold wrapChildren
  simp only [Bool.false_eq_true, if_false, if_true]
  exact ⟨_, rfl, rfl⟩

/-- the reserved entry is recognised as a hint, so erasing hints removes exactly it -/
theorem C12_hint_entry (flag : Nat) : isHintEntry (nKV (nIdentName "_") (nNum flag)) = true := by
  simp [isHintEntry, nKV, nIdentName, nIdent, nNum]

theorem C12_erase_wrap (o : Opts) (elems : List Node) (flag : Nat) (slots : Option Node) :
    eraseSlotHint (wrapChildren { o with optimize := true } elems flag slots)
      = wrapChildren { o with optimize := false } elems flag slots := by
  obtain ⟨props, h1, h2⟩ := C12_wrap_adds_only_hint o elems flag slots
  rw [h1, h2]
  simp [eraseSlotHint, nObject, nList, dropHintEntries, C12_hint_entry]

/-- The slot-flag stack is only touched under optimize: with optimize off the state's stack never changes. -/
theorem C12_stack_untouched_when_off (o : Opts) (st : St) (h : o.optimize = false) :
    pushFlag o st = st ∧ (popFlag o st).2 = st := by
  simp [pushFlag, popFlag, h]

/-- push followed by pop restores the stack (the balance that makes the erased outputs coincide). -/
theorem C12_push_pop_balanced (o : Opts) (st : St) :
    (popFlag o (pushFlag o st)).2 = st := by
  unfold pushFlag popFlag
  cases o.optimize <;> simp

end VueJsx
