/-
  C12 — The optimize option changes hints only, never what is rendered.
-/
import VueJsx.Visitor
import VueJsx.Sem

namespace VueJsx

/-- The props expression, the directives and the v-slots value of an element do not depend on `optimize`
    (only the separately returned patch flags / dynamic-prop list are used under optimize). -/
theorem C12_attrs_blind (o : Opts) (b : Bool) (attrs : List Node) (isComp : Bool) (st : St) :
    transformAttrs { o with optimize := b } attrs isComp st = transformAttrs o attrs isComp st := by
  have step : ∀ a acc st, attrStep { o with optimize := b } isComp a acc st = attrStep o isComp a acc st := by
    intro a acc st; rfl
  have fold : ∀ (as : List Node) acc st, attrFold { o with optimize := b } isComp as acc st = attrFold o isComp as acc st := by
    intro as
    induction as with
    | nil => intro acc st; rfl
    | cons a rest ih => intro acc st; simp only [attrFold, step, ih]
  unfold transformAttrs
  simp only [fold]
  rfl

/-- Under optimize the wrapped slots object is the un-optimised one plus exactly one trailing `_` entry. -/
theorem C12_wrap_adds_only_hint (o : Opts) (elems : List Node) (flag : Nat) (slots : Option Node) :
    ∃ props, wrapChildren { o with optimize := false } elems flag slots = nObject props
      ∧ wrapChildren { o with optimize := true } elems flag slots = nObject (props ++ [nKV (nIdentName "_") (nNum flag)]) := by
  unfold wrapChildren
  simp only [Bool.false_eq_true, if_false, if_true]
  exact ⟨_, rfl, rfl⟩

/-- the reserved entry is recognised as a hint, so erasing hints removes exactly it -/
theorem C12_hint_entry (flag : Nat) : isHintEntry (nKV (nIdentName "_") (nNum flag)) = true := by
  simp [isHintEntry, nKV, nIdentName, nIdent, nNum]

theorem C12_erase_wrap (o : Opts) (elems : List Node) (flag : Nat) (slots : Option Node) :
    eraseSlotHint (wrapChildren { o with optimize := true } elems flag slots)
      = wrapChildren { o with optimize := false } elems flag slots := by
  obtain ⟨props, h1, h2⟩ := C12_wrap_adds_only_hint o elems flag slots
  rw [h1, h2]
  simp [eraseSlotHint, nObject, nList, dropHintEntries, C12_hint_entry]

/-- The slot-flag stack is only touched under optimize: with optimize off the state's stack never changes. -/
theorem C12_stack_untouched_when_off (o : Opts) (st : St) (h : o.optimize = false) :
    pushFlag o st = st ∧ (popFlag o st).2 = st := by
  simp [pushFlag, popFlag, h]

/-- push followed by pop restores the stack (the balance that makes the erased outputs coincide). -/
theorem C12_push_pop_balanced (o : Opts) (st : St) :
    (popFlag o (pushFlag o st)).2 = st := by
  unfold pushFlag popFlag
  cases o.optimize <;> simp

end VueJsx
