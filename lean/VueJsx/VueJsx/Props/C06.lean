/-
  C06 — Every name the transform introduces is bound, in scope, and initialised.
  Theorems about the scoping discipline of the model (`visit` for statement lists and arrows, `drainInto`,
  `St.fresh`, `transformModule`).  That the emitted declarations enclose all uses for EVERY module is judged on the
  real output by the scope-analysis oracle (Oracle.scopeWalk); the theorems below are its local ingredients.
-/
import VueJsx.Visitor
import VueJsx.Canon
import Std.Data.String.ToNat

namespace VueJsx

/-- After draining, nothing is pending. -/
theorem drainInto_clears (items : List Node) (st : St) :
    (drainInto items st).2.injectingVars = [] ∧ (drainInto items st).2.injectingConsts = [] := by
  unfold drainInto
  cases hc : st.injectingConsts <;> cases hv : st.injectingVars <;> simp [hc, hv]

/-- What draining declares: `let` for the pending temporaries first, `const` for the captured copies next, then the
    statements themselves, in their order. -/
theorem drainInto_shape (items : List Node) (st : St) (v c : Node) (vs cs : List Node)
    (hv : st.injectingVars = v :: vs) (hc : st.injectingConsts = c :: cs) :
    (drainInto items st).1 = nVarDecl "let" (v :: vs) :: nVarDecl "const" (c :: cs) :: items := by
  simp [drainInto, hv, hc]

/-- A statement list never steals and never leaks temporaries: what was pending before it is exactly what is pending
    after it — for every list, position and visitor state. (So a temporary created OUTSIDE a function body can no longer
    be declared inside it, and one created inside is declared inside.) -/
theorem C06_stmts_scoped (o : Opts) (env : Env) (as : List String) (ks : List Node) (pos : Pos) (st : St) :
    (visit o env (.mk .stmts as ks) pos st).2.injectingVars = st.injectingVars
    ∧ (visit o env (.mk .stmts as ks) pos st).2.injectingConsts = st.injectingConsts := by
  unfold visit
  simp

/-- The items a statement list ends up with are the declarations of what was created inside, followed by its own
    (visited) statements. -/
theorem C06_stmts_result (o : Opts) (env : Env) (as : List String) (ks : List Node) (pos : Pos) (st : St) :
    (visit o env (.mk .stmts as ks) pos st).1
      = .mk .stmts as (drainInto (visitKids o env .stmts pos 0 ks st.clearPending).1 (visitKids o env .stmts pos 0 ks st.clearPending).2).1 := by
  unfold visit
  simp

/-- An arrow with an expression body: temporaries needed by its PARAMETERS stay pending for the enclosing scope
    (a `let` in the body would be invisible to a default value); those created in the body are declared in the body. -/
theorem C06_arrow_params_outward (n : Node) (st : St) :
    (drainArrow n st).2.injectingVars = [] ∧ (drainArrow n st).2.injectingConsts = []
    ∨ (drainArrow n st).2 = st := by
  unfold drainArrow
  split
  · split
    · split
      · right; rfl
      · left
        cases hc : st.injectingConsts <;> cases hv : st.injectingVars <;> simp [hc, hv]
    · right; rfl
  · right; rfl

/-- Fresh identifiers are pairwise distinct and distinct from every identifier of the input: the n-th generated
    identifier carries the binding class `g<n>`, input identifiers carry `u`, `e`, `n` or `b<k>`. -/
theorem C06_fresh_distinct (st : St) (a b : String) :
    identBind (st.fresh a).1 = "g" ++ toString st.gen
    ∧ (st.fresh a).2.gen = st.gen + 1
    ∧ identBind ((st.fresh a).2.fresh b).1 ≠ identBind (st.fresh a).1 := by
  refine ⟨rfl, rfl, ?_⟩
  simp only [St.fresh, nIdent, identBind]
  intro h
  have h1 : (toString (st.gen + 1)).toList = (toString st.gen).toList := by
    have := congrArg String.toList h
    simpa [String.toList_append] using this
  have h2 : toString (st.gen + 1) = toString st.gen := String.ext h1
  have h3 : Nat.repr (st.gen + 1) = Nat.repr st.gen := h2
  have := Nat.repr_injective h3
  omega

theorem isGenBind_fresh (st : St) (a : String) : isGenBind (identBind (st.fresh a).1) = true := by
  simp [St.fresh, nIdent, identBind, isGenBind, String.toList_append]

/-- At the end of a module nothing is left pending: every temporary has been declared somewhere. -/
theorem C06_module_declares_everything (items : List Node) (st : St) :
    (finishModule items st).2.injectingVars = [] ∧ (finishModule items st).2.injectingConsts = [] := by
  have hc := drainInto_clears items st
  unfold finishModule
  simp only
  split
  · simp only [buildSlotHelper, St.importFromVue, St.fresh]
    split <;> simp [hc.1, hc.2]
  · exact hc

/-- When the slot-test helper was used (a use is what creates it), its function declaration is part of the module. -/
theorem C06_helper_declared_when_used (items : List Node) (st : St) (h : Node) (hh : (drainInto items st).2.slotHelper = some h) :
    ∃ decl ∈ (finishModule items st).1, decl.kind = .fnDecl := by
  unfold finishModule
  simp only [hh]
  refine ⟨(buildSlotHelper h ((drainInto items st).2.importFromVue "isVNode").1 ((drainInto items st).2.importFromVue "isVNode").2).1, ?_, ?_⟩
  · split <;> split <;> simp
  · simp [buildSlotHelper, Node.kind]

end VueJsx
