/-
  C20 — resolveType augments only Vue's defineComponent and never overrides the user.
-/
import VueJsx.Props.C09
import VueJsx.Lemmas.Frame
import VueJsx.Visitor

namespace VueJsx

/-! ### the gate -/

/-- With resolveType off no call and no declarator is touched. -/
theorem C20_off_untouched (o : Opts) (env : Env) (n : Node) (st : St) (h : o.resolveType = false) :
    callHook o env n st = (n, st) ∧ declaratorHook o n st = (n, st) := by
  simp [callHook, declaratorHook, h]

/-- A call that is not a call of the recorded Vue `defineComponent` binding is left exactly as it is. -/
theorem C20_other_calls_untouched (o : Opts) (env : Env) (call : Node) (st : St) (h : isDefineComponentCall st call = false) :
    callHook o env call st = (call, st) := by
  unfold callHook
  split
  · rfl
  · simp [h]

/-- A call counts as Vue's defineComponent only if its callee is an identifier spelled `defineComponent` whose binding
    is the one recorded from the import — not a same-named local, shadowing or global binding, not a member call. -/
theorem C20_gate_iff (st : St) (n b : String) (rest : List String) (iks cks : List Node) (as : List String) :
    isDefineComponentCall st (.mk .call as (.mk .ident (n :: b :: rest) iks :: cks)) = true
      ↔ (st.defineComponent = some b ∧ n = "defineComponent") := by
  unfold isDefineComponentCall
  cases h : st.defineComponent with
  | none => simp
  | some c =>
    simp only [Bool.and_eq_true, beq_iff_eq, Option.some.injEq]

theorem C20_member_callee_never (st : St) (as mas : List String) (mks cks : List Node) :
    isDefineComponentCall st (.mk .call as (.mk .member mas mks :: cks)) = false := by
  simp [isDefineComponentCall]

/-- The binding is recorded only from `import { defineComponent } from 'vue'` (named, un-aliased). -/
theorem C20_import_other_module (as : List String) (specs : List Node) (las sas : List String) (sks rest : List Node)
    (src : String) (st : St) (h : src ≠ "vue") :
    importHook (.mk .importDecl as (.mk .list las specs :: .mk .str (src :: sas) sks :: rest)) st = st := by
  simp [importHook, h]

/-! ### the user's options win -/

theorem notSpreadArg (first : Node) (hf : ∀ a k, first ≠ .mk .spreadArg a k) :
    (match first with | .mk .spreadArg _ _ => true | _ => false) = false := by
  rcases first with ⟨k, a, ks⟩
  cases k <;> first | rfl | exact absurd rfl (hf _ _)

/-- An option the user wrote — in any static spelling — is never injected again (and nothing is derived for it). -/
theorem C20_explicit_option_kept (as las aas oas pas : List String) (callee first ta : Node) (props restArgs : List Node)
    (name : String) (v : Node) (h : props.any (isOptionNamed · name) = true) :
    let call := Node.mk .call as [callee, .mk .list las (first :: .mk .arg aas [.mk .object oas [.mk .list pas props]] :: restArgs), ta]
    canInjectOption call name = false ∧ injectOption call name v = call := by
  intro call
  have hc : canInjectOption call name = false := by
    simp only [call, canInjectOption]
    split
    · rfl
    · simp [h]
  exact ⟨hc, by simp [injectOption, hc]⟩

/-- A call with a spread among its first two arguments is left alone. -/
theorem C20_spread_arguments_untouched (as las sas : List String) (callee ta e : Node) (restArgs : List Node) (name : String) (v : Node) :
    let call := Node.mk .call as [callee, .mk .list las (.mk .spreadArg sas [e] :: restArgs), ta]
    canInjectOption call name = false ∧ injectOption call name v = call := by
  intro call
  have hc : canInjectOption call name = false := by simp [call, canInjectOption]
  exact ⟨hc, by simp [injectOption, hc]⟩

/-- A call without arguments is left alone: there is no component to attach options to (fix f5fb517; before, the options object
    became the FIRST argument - the component itself - and every further run appended another one). -/
theorem C20_no_arguments_untouched (as las : List String) (callee ta : Node) (name : String) (v : Node) :
    let call := Node.mk .call as [callee, .mk .list las [], ta]
    canInjectOption call name = false ∧ injectOption call name v = call := by
  intro call
  have hc : canInjectOption call name = false := by simp [call, canInjectOption]
  exact ⟨hc, by simp [injectOption, hc]⟩

/-- An options expression that is not an object literal is spread AFTER the injected key, so whatever it provides wins. -/
theorem C20_options_expression_spread_last (as las aas : List String) (callee first ta e : Node) (restArgs : List Node)
    (name : String) (v : Node) (hf : ∀ a k, first ≠ .mk .spreadArg a k) (he : ∀ a k, e ≠ .mk .object a k) :
    injectOption (.mk .call as [callee, .mk .list las (first :: .mk .arg aas [e] :: restArgs), ta]) name v
      = .mk .call as [callee, .mk .list las (first :: nArg (nObject [nKV (nIdentName name) v, nSpreadElement e]) :: restArgs), ta] := by
  have h1 := notSpreadArg first hf
  have hc : canInjectOption (.mk .call as [callee, .mk .list las (first :: .mk .arg aas [e] :: restArgs), ta]) name = true := by
    simp only [canInjectOption, List.take, List.any, h1, Bool.false_or, Bool.or_false, List.isEmpty_cons]
    simp only [List.getElem?_cons_succ, List.getElem?_cons_zero, Bool.false_eq_true, if_false]
    split
    · rename_i hh
      simp only [Option.some.injEq, Node.mk.injEq, List.cons.injEq, and_true, true_and] at hh
      exact absurd hh.2 (he _ _)
    · rfl
  unfold injectOption
  simp only [hc, Bool.not_true, Bool.false_eq_true, if_false]
  simp only [List.getElem?_cons_succ, List.getElem?_cons_zero]
  split
  · rename_i hh
    simp only [Option.some.injEq, Node.mk.injEq, List.cons.injEq, and_true, true_and] at hh
    exact absurd hh.2 (he _ _)
  · rename_i hh
    simp only [Option.some.injEq, Node.mk.injEq, List.cons.injEq, and_true, true_and] at hh
    obtain ⟨_, rfl⟩ := hh
    simp
  · rename_i hne heq
    simp only [Option.some.injEq] at heq
    exact absurd heq.symm (hne _ _)
  · rename_i heq; simp at heq

/-! ### semantic statement: for ALL runtime values of the spread operands the user's value is what Vue receives -/

/-- abstract entries of an options object: a static key with a value, or the i-th spread operand -/
inductive Ent (V : Type) where
  | kv (k : String) (v : V)
  | spread (i : Nat)

/-- JavaScript object-literal semantics: the value finally stored under `k` (later entries win); `ρ i` is the
    runtime object the i-th spread operand evaluates to -/
def valOf {V : Type} (ρ : Nat → List (String × V)) (k : String) : List (Ent V) → Option V → Option V
  | [], acc => acc
  | .kv k' v :: rest, acc => valOf ρ k rest (if k' = k then some v else acc)
  | .spread i :: rest, acc => valOf ρ k rest (match (ρ i).lookup k with | some u => some u | none => acc)

def isSpreadEnt {V : Type} : Ent V → Bool
  | .spread _ => true
  | .kv _ _ => false

/-- the generic form of `insertBeforeFirstSpread` -/
def insertBeforeFirst {α : Type} (p : α → Bool) : List α → α → List α
  | [], e => [e]
  | x :: rest, e => if p x then e :: x :: rest else x :: insertBeforeFirst p rest e

theorem insertBeforeFirstSpread_eq (props : List Node) (entry : Node) :
    insertBeforeFirstSpread props entry = insertBeforeFirst isSpreadProp props entry := by
  induction props with
  | nil => rfl
  | cons p rest ih => simp [insertBeforeFirstSpread, insertBeforeFirst, ih]

theorem valOf_no_key {V : Type} (ρ : Nat → List (String × V)) (k : String) (ents : List (Ent V)) (acc : Option V)
    (hno : ∀ e ∈ ents, match e with | .kv k' _ => k' ≠ k | .spread _ => False) : valOf ρ k ents acc = acc := by
  induction ents generalizing acc with
  | nil => rfl
  | cons e rest ih =>
    cases e with
    | kv k' v =>
      have hk : k' ≠ k := by have := hno (.kv k' v) (by simp); simpa using this
      simp [valOf, hk]
      exact ih _ (fun e he => hno e (by simp [he]))
    | spread i => exact absurd (hno (.spread i) (by simp)) (by simp)

/-- Injecting `k: v` before the first spread: for EVERY runtime value of the spread operands, if the user's entries
    provide `k` the result is the user's value, otherwise it is the injected one; every other key is unchanged. -/
theorem C20_user_wins_semantic {V : Type} (ρ : Nat → List (String × V)) (k : String) (v : V) (ents : List (Ent V))
    (hno : ∀ e ∈ ents, match e with | .kv k' _ => k' ≠ k | .spread _ => True) :
    valOf ρ k (insertBeforeFirst isSpreadEnt ents (.kv k v)) none
        = (match valOf ρ k ents none with | some u => some u | none => some v)
    ∧ ∀ k', k' ≠ k → valOf ρ k' (insertBeforeFirst isSpreadEnt ents (.kv k v)) none = valOf ρ k' ents none := by
  -- generalise over the accumulator: before the insertion point no entry provides k
  have key : ∀ (ents : List (Ent V)) (acc : Option V),
      (∀ e ∈ ents, match e with | .kv k' _ => k' ≠ k | .spread _ => True) →
      (valOf ρ k (insertBeforeFirst isSpreadEnt ents (.kv k v)) acc
          = (match valOf ρ k ents none with | some u => some u | none => some v)) := by
    intro ents
    induction ents with
    | nil => intro acc _; simp [insertBeforeFirst, valOf]
    | cons e rest ih =>
      intro acc hno
      cases e with
      | kv k' w =>
        have hk : k' ≠ k := by have := hno (.kv k' w) (by simp); simpa using this
        simp only [insertBeforeFirst, isSpreadEnt, Bool.false_eq_true, if_false, valOf, hk]
        exact ih _ (fun e he => hno e (by simp [he]))
      | spread i =>
        simp only [insertBeforeFirst, isSpreadEnt, if_true, valOf]
        -- after the injected entry the accumulator is `some v`; the remaining entries are the user's
        have gen : ∀ (es : List (Ent V)) (a : Option V) (b : Option V),
            (∀ e ∈ es, match e with | .kv k' _ => k' ≠ k | .spread _ => True) →
            (a = (match b with | some u => some u | none => some v)) →
            valOf ρ k es a = (match valOf ρ k es b with | some u => some u | none => some v) := by
          intro es
          induction es with
          | nil => intro a b _ hab; simpa [valOf] using hab
          | cons e rest ih2 =>
            intro a b hno2 hab
            cases e with
            | kv k'' w =>
              have hk : k'' ≠ k := by have := hno2 (.kv k'' w) (by simp); simpa using this
              simp only [valOf, hk, if_false]
              exact ih2 a b (fun e he => hno2 e (by simp [he])) hab
            | spread j =>
              simp only [valOf]
              apply ih2 _ _ (fun e he => hno2 e (by simp [he]))
              cases (ρ j).lookup k <;> simp [hab]
        have := gen (.spread i :: rest) (some v) none hno (by simp)
        simpa [valOf] using this
  refine ⟨key ents none hno, ?_⟩
  intro k' hk'
  have other : ∀ (ents : List (Ent V)) (acc : Option V),
      valOf ρ k' (insertBeforeFirst isSpreadEnt ents (.kv k v)) acc = valOf ρ k' ents acc := by
    intro ents
    induction ents with
    | nil => intro acc; simp [insertBeforeFirst, valOf, Ne.symm hk']
    | cons e rest ih =>
      intro acc
      cases e with
      | kv k'' w => simp [insertBeforeFirst, isSpreadEnt, valOf, ih]
      | spread i => simp [insertBeforeFirst, isSpreadEnt, valOf, Ne.symm hk']
  exact other ents none

/-- non-vacuity: a user object `{a: 1, ...s0, b: 2}` where the spread operand provides `name` -/
example : valOf (fun _ => [("name", 7)]) "name" (insertBeforeFirst isSpreadEnt [Ent.kv "a" 1, .spread 0, .kv "b" 2] (.kv "name" 0)) none = some 7 := by
  decide

/-! ### the gate stays closed: without an import of Vue's `defineComponent` no call is ever augmented -/

def inertKind (k : K) : Bool :=
  match k with
  | .stmts | .arrow | .jsxElement | .jsxFragment | .jsxOpening | .importDecl | .call | .declarator | .assign => false
  | _ => true

mutual
/-- a subtree no hook of the visitor reacts to (identifiers, literals, import specifiers, …) -/
def Inert : Node → Bool
  | .mk k _ ks => inertKind k && InertL ks
def InertL : List Node → Bool
  | [] => true
  | n :: ns => Inert n && InertL ns
end

mutual
theorem visit_inert (o : Opts) (env : Env) : ∀ (n : Node) (pos : Pos) (st : St), Inert n = true → visit o env n pos st = (n, st)
  | .mk k as ks, pos, st, h => by
    simp only [Inert, Bool.and_eq_true] at h
    have hk := h.1
    have ih := visitKids_inert o env ks k pos 0 st h.2
    unfold visit
    split
    next => simp [inertKind] at hk
    next => simp [inertKind] at hk
    next =>
      simp only [ih]
      have hkh : kindHook o env (.mk k as ks) st = (.mk k as ks, st) := by
        unfold kindHook
        split
        · rename_i heq; injection heq with h1; subst h1; simp [inertKind] at hk
        · rename_i heq; injection heq with h1; subst h1; simp [inertKind] at hk
        · rename_i heq; injection heq with h1; subst h1; simp [inertKind] at hk
        · rename_i heq; injection heq with h1; subst h1; simp [inertKind] at hk
        · rfl
      simp only [hkh]
      unfold exprHook
      split
      · rfl
      · split
        · rename_i heq; injection heq with h1; subst h1; simp [inertKind] at hk
        · rename_i heq; injection heq with h1; subst h1; simp [inertKind] at hk
        · rename_i heq; injection heq with h1; subst h1; simp [inertKind] at hk
        · rfl
theorem visitKids_inert (o : Opts) (env : Env) : ∀ (ks : List Node) (k : K) (pos : Pos) (i : Nat) (st : St),
    InertL ks = true → visitKids o env k pos i ks st = (ks, st)
  | [], _, _, _, _, _ => by simp [visitKids]
  | c :: cs, k, pos, i, st, h => by
    simp only [InertL, Bool.and_eq_true] at h
    simp only [visitKids, visit_inert o env c (kidPos k pos i) st h.1, visitKids_inert o env cs k pos (i + 1) st h.2]
end

mutual
/-- every import declaration of the tree is plain (nothing inside it the visitor reacts to) and does not bind Vue's
    `defineComponent` -/
def GoodImports : Node → Bool
  | .mk k as ks => (if k == .importDecl then InertL ks && !importsDc (.mk k as ks) else true) && GoodImportsL ks
def GoodImportsL : List Node → Bool
  | [] => true
  | n :: ns => GoodImports n && GoodImportsL ns
end

theorem ro_dc {a b : St} (h : a.ro = b.ro) : a.defineComponent = b.defineComponent := by
  simp only [St.ro, Prod.mk.injEq] at h; exact h.2.1

theorem openingHook_dc (n : Node) (st : St) : (openingHook n st).2.defineComponent = st.defineComponent := by
  unfold openingHook
  split
  · split
    · rfl
    · simp only
      split
      · rfl
      · split <;> rfl
  · rfl

theorem drainInto_dc (items : List Node) (st : St) : (drainInto items st).2.defineComponent = st.defineComponent := by
  unfold drainInto
  simp only
  split <;> split <;> rfl

theorem drainArrow_dc (n : Node) (st : St) : (drainArrow n st).2.defineComponent = st.defineComponent := by
  unfold drainArrow
  split
  · split
    · split
      · rfl
      · simp only
        split <;> split <;> rfl
    · rfl
  · rfl

theorem exprHook_dc (o : Opts) (env : Env) (pos : Pos) (n : Node) (st : St) :
    (exprHook o env pos n st).2.defineComponent = st.defineComponent := by
  unfold exprHook
  split
  · rfl
  · split
    · exact ro_dc (trElement_ro o env _ st)
    · exact ro_dc (trFragment_ro o env _ st)
    · rfl
    · rfl

mutual
/-- **The gate stays closed.**  In a tree whose import declarations do not bind Vue's `defineComponent`, under EVERY
    option set and however much JSX is lowered on the way, the visitor never records a binding — so (by
    `isDefineComponentCall_none`) no call and no declarator is ever treated as Vue's `defineComponent`. -/
theorem visit_dc_none (o : Opts) (env : Env) : ∀ (n : Node) (pos : Pos) (st : St), GoodImports n = true →
    st.defineComponent = none → (visit o env n pos st).2.defineComponent = none
  | .mk k as ks, pos, st, hg, hd => by
    simp only [GoodImports, Bool.and_eq_true] at hg
    have hgk := hg.2
    unfold visit
    split
    next =>
      simp only
      rw [drainInto_dc]
      exact visitKids_dc_none o env ks .stmts pos 0 _ hgk (by simpa [St.clearPending] using hd)
    next params rest =>
      simp only [GoodImportsL, Bool.and_eq_true] at hgk
      simp only
      rw [exprHook_dc]
      simp only
      rw [drainArrow_dc]
      have h1 := visit_dc_none o env params (kidPos .arrow pos 0) st hgk.1 hd
      exact visitKids_dc_none o env rest .arrow pos 1 _ hgk.2 (by simpa [St.clearPending] using h1)
    next =>
      simp only
      rw [exprHook_dc]
      have hk := visitKids_dc_none o env ks k pos 0 st hgk hd
      -- the hook of this node
      unfold kindHook
      split
      · exact (openingHook_dc _ _).trans hk
      · -- an import declaration: its children are untouched and it does not bind defineComponent
        rename_i heq
        injection heq with h1 h2 h3
        subst h1
        have hin := hg.1
        simp only [beq_self_eq_true, if_true, Bool.and_eq_true, Bool.not_eq_true'] at hin
        have hkids := visitKids_inert o env ks .importDecl pos 0 st hin.1
        rw [hkids] at h3 hk ⊢
        subst h3 h2
        simp only
        rw [importHook_noDc _ _ _ _ hin.2]
        exact hd
      · simp only [callHook, isDefineComponentCall_none _ _ hk]
        split <;> exact hk
      · simp only [declaratorHook]
        split
        · exact hk
        · split
          · simp only [isDefineComponentCall_none _ _ hk]; exact hk
          · exact hk
      · exact hk
theorem visitKids_dc_none (o : Opts) (env : Env) : ∀ (ks : List Node) (k : K) (pos : Pos) (i : Nat) (st : St),
    GoodImportsL ks = true → st.defineComponent = none → (visitKids o env k pos i ks st).2.defineComponent = none
  | [], _, _, _, st, _, hd => by simpa [visitKids] using hd
  | c :: cs, k, pos, i, st, hg, hd => by
    simp only [GoodImportsL, Bool.and_eq_true] at hg
    simp only [visitKids]
    exact visitKids_dc_none o env cs k pos (i + 1) _ hg.2 (visit_dc_none o env c (kidPos k pos i) st hg.1 hd)
end


-- non-vacuity: a tree with an import of `ref` from 'vue', JSX, and a call spelled defineComponent meets the hypothesis
example : GoodImportsL [.mk .importDecl ["false", "evaluation"] [nList [.mk .importSpec ["false"] [nIdent "ref" "b2", nNone]], nStr "vue", nNone],
    .mk .exprStmt [] [.mk .jsxElement [] [.mk .jsxOpening [] [nIdent "div" "u", nList [], nNone], nList [], nNone]],
    .mk .exprStmt [] [.mk .call ["usr"] [nIdent "defineComponent" "u", nList [], nNone]]] = true := by
  decide

-- and an import that does bind it is rejected by the hypothesis
example : GoodImports (.mk .importDecl ["false", "evaluation"]
    [nList [.mk .importSpec ["false"] [nIdent "defineComponent" "b2", nNone]], nStr "vue", nNone]) = false := by
  decide

/-- An entry whose key is computed at run time (`{ [key]: v }`, key not a literal) may define ANY option: the injected option is
    placed BEFORE it, so whatever it defines wins (fix 80c9e93; the semantic theorem `C20_user_wins_semantic` is stated for
    the predicate by which the insertion point is chosen, so it covers such entries like spreads). -/
theorem C20_computed_key_entry_wins (kas cas ias : List String) (iks : List Node) (v : Node) (rest : List Node) (entry : Node) :
    insertBeforeFirstSpread (.mk .kv kas [.mk .computed cas [.mk .ident ias iks], v] :: rest) entry
      = entry :: .mk .kv kas [.mk .computed cas [.mk .ident ias iks], v] :: rest := by
  simp [insertBeforeFirstSpread, isSpreadProp, isSpreadProp.dynKey, isLit]

/-- a template literal without substitutions is an explicit spelling of the key: [`name`] is the user's `name` -/
theorem C20_template_key_is_explicit (kas cas tas l1 l2 : List String) (tail cooked : String) (more : List String) (eks : List Node) (v : Node) :
    isOptionNamed (.mk .kv kas [.mk .computed cas [.mk .tsTplLit tas [.mk .list l1 [], .mk .list l2 [.mk (.other "TemplateElement") (tail :: cooked :: more) eks]]], v]) cooked = true := by
  simp [isOptionNamed]

end VueJsx
