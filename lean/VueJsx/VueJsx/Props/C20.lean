/-
  C20 — resolveType augments only Vue's defineComponent and never overrides the user.
-/
import VueJsx.Visitor

namespace VueJsx

/-! ### the gate -/

/-- With resolveType off no call and no declarator is touched. -/
theorem C20_off_untouched (o : Opts) (env : Env) (n : Node) (st : St) (h : o.resolveType = false) :
    callHook o env n st = (n, st) ∧ declaratorHook o n st = (n, st) := by
  simp [callHook, declaratorHook, h]

/-- A call that is not a call of the recorded Vue `defineComponent` binding is left exactly as it is. -/
theorem C20_other_calls_untouched (o : Opts) (env : Env) (call : Node) (st : St) (h : isDefineComponentCall st call = false) :
    callHook o env call st = (call, st) := by
  unfold callHook
  split
  · rfl
  · simp [h]

/-- A call counts as Vue's defineComponent only if its callee is an identifier spelled `defineComponent` whose binding
    is the one recorded from the import — not a same-named local, shadowing or global binding, not a member call. -/
theorem C20_gate_iff (st : St) (n b : String) (rest : List String) (iks cks : List Node) (as : List String) :
    isDefineComponentCall st (.mk .call as (.mk .ident (n :: b :: rest) iks :: cks)) = true
      ↔ (st.defineComponent = some b ∧ n = "defineComponent") := by
  unfold isDefineComponentCall
  cases h : st.defineComponent with
  | none => simp
  | some c =>
    simp only [Bool.and_eq_true, beq_iff_eq, Option.some.injEq]

theorem C20_member_callee_never (st : St) (as mas : List String) (mks cks : List Node) :
    isDefineComponentCall st (.mk .call as (.mk .member mas mks :: cks)) = false := by
  simp [isDefineComponentCall]

/-- The binding is recorded only from `import { defineComponent } from 'vue'` (named, un-aliased). -/
theorem C20_import_other_module (as : List String) (specs : List Node) (las sas : List String) (sks rest : List Node)
    (src : String) (st : St) (h : src ≠ "vue") :
    importHook (.mk .importDecl as (.mk .list las specs :: .mk .str (src :: sas) sks :: rest)) st = st := by
  simp [importHook, h]

/-! ### the user's options win -/

theorem notSpreadArg (first : Node) (hf : ∀ a k, first ≠ .mk .spreadArg a k) :
    (match first with | .mk .spreadArg _ _ => true | _ => false) = false := by
  rcases first with ⟨k, a, ks⟩
  cases k <;> first | rfl | exact absurd rfl (hf _ _)

/-- An option the user wrote — in any static spelling — is never injected again (and nothing is derived for it). -/
theorem C20_explicit_option_kept (as las aas oas pas : List String) (callee first ta : Node) (props restArgs : List Node)
    (name : String) (v : Node) (h : props.any (isOptionNamed · name) = true) :
    let call := Node.mk .call as [callee, .mk .list las (first :: .mk .arg aas [.mk .object oas [.mk .list pas props]] :: restArgs), ta]
    canInjectOption call name = false ∧ injectOption call name v = call := by
  intro call
  have hc : canInjectOption call name = false := by
    simp only [call, canInjectOption]
    split
    · rfl
    · simp [h]
  exact ⟨hc, by simp [injectOption, hc]⟩

/-- A call with a spread among its first two arguments is left alone. -/
theorem C20_spread_arguments_untouched (as las sas : List String) (callee ta e : Node) (restArgs : List Node) (name : String) (v : Node) :
    let call := Node.mk .call as [callee, .mk .list las (.mk .spreadArg sas [e] :: restArgs), ta]
    canInjectOption call name = false ∧ injectOption call name v = call := by
  intro call
  have hc : canInjectOption call name = false := by simp [call, canInjectOption]
  exact ⟨hc, by simp [injectOption, hc]⟩

/-- An options expression that is not an object literal is spread AFTER the injected key, so whatever it provides wins. -/
theorem C20_options_expression_spread_last (as las aas : List String) (callee first ta e : Node) (restArgs : List Node)
    (name : String) (v : Node) (hf : ∀ a k, first ≠ .mk .spreadArg a k) (he : ∀ a k, e ≠ .mk .object a k) :
    injectOption (.mk .call as [callee, .mk .list las (first :: .mk .arg aas [e] :: restArgs), ta]) name v
      = .mk .call as [callee, .mk .list las (first :: nArg (nObject [nKV (nIdentName name) v, nSpreadElement e]) :: restArgs), ta] := by
  have h1 := notSpreadArg first hf
  have hc : canInjectOption (.mk .call as [callee, .mk .list las (first :: .mk .arg aas [e] :: restArgs), ta]) name = true := by
    simp only [canInjectOption, List.take, List.any, h1, Bool.false_or, Bool.or_false]
    simp only [List.getElem?_cons_succ, List.getElem?_cons_zero, Bool.false_eq_true, if_false]
    split
    · rename_i hh
      simp only [Option.some.injEq, Node.mk.injEq, List.cons.injEq, and_true, true_and] at hh
      exact absurd hh.2 (he _ _)
    · rfl
  unfold injectOption
  simp only [hc, Bool.not_true, Bool.false_eq_true, if_false]
  simp only [List.getElem?_cons_succ, List.getElem?_cons_zero]
  split
  · rename_i hh
    simp only [Option.some.injEq, Node.mk.injEq, List.cons.injEq, and_true, true_and] at hh
    exact absurd hh.2 (he _ _)
  · rename_i hh
    simp only [Option.some.injEq, Node.mk.injEq, List.cons.injEq, and_true, true_and] at hh
    obtain ⟨_, rfl⟩ := hh
    simp
  · rename_i hne heq
    simp only [Option.some.injEq] at heq
    exact absurd heq.symm (hne _ _)
  · rename_i heq; simp at heq

/-! ### semantic statement: for ALL runtime values of the spread operands the user's value is what Vue receives -/

/-- abstract entries of an options object: a static key with a value, or the i-th spread operand -/
inductive Ent (V : Type) where
  | kv (k : String) (v : V)
  | spread (i : Nat)

/-- JavaScript object-literal semantics: the value finally stored under `k` (later entries win); `ρ i` is the
    runtime object the i-th spread operand evaluates to -/
def valOf {V : Type} (ρ : Nat → List (String × V)) (k : String) : List (Ent V) → Option V → Option V
  | [], acc => acc
  | .kv k' v :: rest, acc => valOf ρ k rest (if k' = k then some v else acc)
  | .spread i :: rest, acc => valOf ρ k rest (match (ρ i).lookup k with | some u => some u | none => acc)

def isSpreadEnt {V : Type} : Ent V → Bool
  | .spread _ => true
  | .kv _ _ => false

/-- the generic form of `insertBeforeFirstSpread` -/
def insertBeforeFirst {α : Type} (p : α → Bool) : List α → α → List α
  | [], e => [e]
  | x :: rest, e => if p x then e :: x :: rest else x :: insertBeforeFirst p rest e

theorem insertBeforeFirstSpread_eq (props : List Node) (entry : Node) :
    insertBeforeFirstSpread props entry = insertBeforeFirst isSpreadProp props entry := by
  induction props with
  | nil => rfl
  | cons p rest ih => simp [insertBeforeFirstSpread, insertBeforeFirst, ih]

theorem valOf_no_key {V : Type} (ρ : Nat → List (String × V)) (k : String) (ents : List (Ent V)) (acc : Option V)
    (hno : ∀ e ∈ ents, match e with | .kv k' _ => k' ≠ k | .spread _ => False) : valOf ρ k ents acc = acc := by
  induction ents generalizing acc with
  | nil => rfl
  | cons e rest ih =>
    cases e with
    | kv k' v =>
      have hk : k' ≠ k := by have := hno (.kv k' v) (by simp); simpa using this
      simp [valOf, hk]
      exact ih _ (fun e he => hno e (by simp [he]))
    | spread i => exact absurd (hno (.spread i) (by simp)) (by simp)

/-- Injecting `k: v` before the first spread: for EVERY runtime value of the spread operands, if the user's entries
    provide `k` the result is the user's value, otherwise it is the injected one; every other key is unchanged. -/
theorem C20_user_wins_semantic {V : Type} (ρ : Nat → List (String × V)) (k : String) (v : V) (ents : List (Ent V))
    (hno : ∀ e ∈ ents, match e with | .kv k' _ => k' ≠ k | .spread _ => True) :
    valOf ρ k (insertBeforeFirst isSpreadEnt ents (.kv k v)) none
        = (match valOf ρ k ents none with | some u => some u | none => some v)
    ∧ ∀ k', k' ≠ k → valOf ρ k' (insertBeforeFirst isSpreadEnt ents (.kv k v)) none = valOf ρ k' ents none := by
  -- generalise over the accumulator: before the insertion point no entry provides k
  have key : ∀ (ents : List (Ent V)) (acc : Option V),
      (∀ e ∈ ents, match e with | .kv k' _ => k' ≠ k | .spread _ => True) →
      (valOf ρ k (insertBeforeFirst isSpreadEnt ents (.kv k v)) acc
          = (match valOf ρ k ents none with | some u => some u | none => some v)) := by
    intro ents
    induction ents with
    | nil => intro acc _; simp [insertBeforeFirst, valOf]
    | cons e rest ih =>
      intro acc hno
      cases e with
      | kv k' w =>
        have hk : k' ≠ k := by have := hno (.kv k' w) (by simp); simpa using this
        simp only [insertBeforeFirst, isSpreadEnt, Bool.false_eq_true, if_false, valOf, hk]
        exact ih _ (fun e he => hno e (by simp [he]))
      | spread i =>
        simp only [insertBeforeFirst, isSpreadEnt, if_true, valOf]
        -- after the injected entry the accumulator is `some v`; the remaining entries are the user's
        have gen : ∀ (es : List (Ent V)) (a : Option V) (b : Option V),
            (∀ e ∈ es, match e with | .kv k' _ => k' ≠ k | .spread _ => True) →
            (a = (match b with | some u => some u | none => some v)) →
            valOf ρ k es a = (match valOf ρ k es b with | some u => some u | none => some v) := by
          intro es
          induction es with
          | nil => intro a b _ hab; simpa [valOf] using hab
          | cons e rest ih2 =>
            intro a b hno2 hab
            cases e with
            | kv k'' w =>
              have hk : k'' ≠ k := by have := hno2 (.kv k'' w) (by simp); simpa using this
              simp only [valOf, hk, if_false]
              exact ih2 a b (fun e he => hno2 e (by simp [he])) hab
            | spread j =>
              simp only [valOf]
              apply ih2 _ _ (fun e he => hno2 e (by simp [he]))
              cases (ρ j).lookup k <;> simp [hab]
        have := gen (.spread i :: rest) (some v) none hno (by simp)
        simpa [valOf] using this
  refine ⟨key ents none hno, ?_⟩
  intro k' hk'
  have other : ∀ (ents : List (Ent V)) (acc : Option V),
      valOf ρ k' (insertBeforeFirst isSpreadEnt ents (.kv k v)) acc = valOf ρ k' ents acc := by
    intro ents
    induction ents with
    | nil => intro acc; simp [insertBeforeFirst, valOf, Ne.symm hk']
    | cons e rest ih =>
      intro acc
      cases e with
      | kv k'' w => simp [insertBeforeFirst, isSpreadEnt, valOf, ih]
      | spread i => simp [insertBeforeFirst, isSpreadEnt, valOf, Ne.symm hk']
  exact other ents none

/-- non-vacuity: a user object `{a: 1, ...s0, b: 2}` where the spread operand provides `name` -/
example : valOf (fun _ => [("name", 7)]) "name" (insertBeforeFirst isSpreadEnt [Ent.kv "a" 1, .spread 0, .kv "b" 2] (.kv "name" 0)) none = some 7 := by
  decide

end VueJsx
