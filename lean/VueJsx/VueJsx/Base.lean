/-
  Base: options, environment (parameters answered by the real crates), visitor state, and node builders
  whose shapes are exactly what α produces for the nodes the real visitor builds.
-/
import VueJsx.Syntax
import VueJsx.Text

namespace VueJsx

/-- `visitor/src/options.rs: Options` (patterns live in `Env.patMatch`) -/
structure Opts where
  transformOn : Bool := false
  optimize : Bool := false
  mergeProps : Bool := true
  enableObjectSlots : Bool := true
  resolveType : Bool := false
  pragma : Option String := none
  deriving Repr, DecidableEq, Inhabited

/-- Parameters of the model that the theorems quantify over and the driver instantiates from the real crates:
    the `css_dataset` tag tables, `regex` matching, and the comments SWC attached. -/
structure Env where
  /-- tag names that are standard HTML or SVG tags -/
  known : List String := []
  /-- tag names matched by at least one `customElementPatterns` regex -/
  patMatch : List String := []
  /-- leading comments at `module.span.lo`, then at each top-level item's `span.lo` -/
  comments : List (List String) := []
  /-- whether a `Comments` store was handed to the visitor (the plugin always passes one) -/
  hasComments : Bool := true
  deriving Repr, Inhabited

def Env.isKnown (e : Env) (s : String) : Bool := e.known.contains s
def Env.isPat (e : Env) (s : String) : Bool := e.patMatch.contains s

/-- the `&mut self` fields of `VueJsxTransformVisitor`, threaded explicitly -/
structure St where
  /-- `vue_imports: BTreeMap<&str, Ident>`, kept sorted by key -/
  imports : List (String × Node) := []
  transformOnHelper : Option Node := none
  /-- `define_component: Option<SyntaxContext>` as a binding class -/
  defineComponent : Option String := none
  /-- `interfaces`, `type_aliases`: keyed by (name, binding class) -/
  interfaces : List ((String × String) × Node) := []
  typeAliases : List ((String × String) × Node) := []
  pragma : Option String := none
  slotHelper : Option Node := none
  injectingVars : List Node := []
  slotCounter : Nat := 1
  slotFlagStack : List Nat := []
  assignmentLeft : Option Node := none
  injectingConsts : List Node := []
  /-- diagnostics emitted through `HANDLER` (message texts) -/
  diags : List String := []
  /-- number of `private_ident!` calls so far -/
  gen : Nat := 0
  /-- set when the real code would hit `unreachable!()` / an index panic -/
  panicked : Option String := none
  /-- `type_resolution_gave_up`: the type resolution in progress has hit the depth limit and is being unwound -/
  typeGaveUp : Bool := false
  deriving Repr, Inhabited

/-! ### identifiers -/

def identName : Node → String
  | .mk .ident (n :: _) _ => n
  | _ => ""

def identBind : Node → String
  | .mk .ident (_ :: b :: _) _ => b
  | _ => ""

def isIdent : Node → Bool
  | .mk .ident _ _ => true
  | _ => false

/-- `ident.to_id().1.has_mark(unresolved_mark)` -/
def isUnresolvedIdent (n : Node) : Bool := identBind n == "u"

/-- an identifier used as a binding pattern (`BindingIdent`, `type_ann: None`) -/
def nBindingIdent (id : Node) : Node :=
  match id with
  | .mk .ident as _ => .mk .ident as [nNone]
  | n => n

/-- an identifier expression: strips a `BindingIdent`'s annotation slot -/
def nIdentExpr (id : Node) : Node :=
  match id with
  | .mk .ident as _ => .mk .ident as []
  | n => n

/-- `private_ident!(name)` -/
def St.fresh (st : St) (name : String) : Node × St :=
  (nIdent name ("g" ++ toString st.gen), { st with gen := st.gen + 1 })

/-- `quote_ident!(name)` as an `Ident` (empty syntax context) -/
def nQuoteIdent (name : String) : Node := nIdent name "e"
/-- `quote_ident!(name)` as an `IdentName` -/
def nIdentName (name : String) : Node := nIdent name "n"

def insertSorted (k : String) (v : Node) : List (String × Node) → List (String × Node)
  | [] => [(k, v)]
  | (k', v') :: rest => if k < k' then (k, v) :: (k', v') :: rest else (k', v') :: insertSorted k v rest

/-- `import_from_vue(item)` -/
def St.importFromVue (st : St) (item : String) : Node × St :=
  match st.imports.find? (fun p => p.1 == item) with
  | some p => (p.2, st)
  | none =>
    let (id, st) := st.fresh ("_" ++ item)
    (id, { st with imports := insertSorted item id st.imports })

def St.err (st : St) (msg : String) : St := { st with diags := st.diags ++ [msg] }
def St.panic (st : St) (msg : String) : St :=
  match st.panicked with
  | some _ => st
  | none => { st with panicked := some msg }

/-! ### node builders (shapes = α of what the Rust code builds) -/

def nArrow (params : List Node) (body : Node) : Node :=
  .mk .arrow ["false", "false"] [nList params, body, nNone, nNone]
def nBlock (stmts : List Node) : Node := .mk .block ["syn"] [nStmts stmts]
def nReturn (e : Node) : Node := .mk .ret [] [e]
def nAssignParen (target value : Node) : Node :=
  .mk .assign ["="] [.mk .paren [] [target], value]
def nCond (t c a : Node) : Node := .mk .cond [] [t, c, a]
def nBin (op : String) (l r : Node) : Node := .mk .bin [op] [l, r]
def nUnary (op : String) (a : Node) : Node := .mk .unary [op] [a]
def nMember (obj : Node) (prop : String) : Node := .mk .member [] [obj, nIdentName prop]
def nComputed (e : Node) : Node := .mk .computed [] [e]
def nVoid0 : Node := nUnary "void" (nNum 0)
def nDeclarator (name : Node) (init : Node) : Node := .mk .declarator ["false"] [nBindingIdent name, init]
def nVarDecl (kind : String) (decls : List Node) : Node := .mk .varDecl [kind, "false"] [nList decls]
def nFnExpr (params : List Node) (body : List Node) : Node :=
  .mk .fnExpr ["false", "false"] [nNone, nList params, nList [], nBlock body, nNone, nNone]
def nEmptyIdent : Node := nQuoteIdent ""

/-! ### list helpers -/

def listItems : Node → List Node
  | .mk .list _ xs => xs
  | .mk .stmts _ xs => xs
  | _ => []

def isNone : Node → Bool
  | .mk .none _ _ => true
  | _ => false

def insertUnique (x : String) (xs : List String) : List String :=
  if xs.contains x then xs else xs ++ [x]

end VueJsx
