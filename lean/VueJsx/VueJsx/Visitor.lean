/-
  Visitor: the bottom-up traversal (`impl VisitMut for VueJsxTransformVisitor`) with its hooks, and the
  module-level assembly (pragma scan, pending declarations, helper, imports).
-/
import VueJsx.Element
import VueJsx.ResolveType

namespace VueJsx
open Text

/-- where a node sits, as far as `visit_mut_expr` is concerned -/
inductive Pos where
  | normal      -- anything; JSX elements/fragments here are `Expr`s
  | jsxKid      -- a direct JSX child or an attribute value: a JSX element here is NOT an `Expr`
  | childList   -- the `children` list of a JSX element/fragment
  deriving DecidableEq, Repr

/-- positions of the kids of a node of kind `k` sitting at `pos` -/
def kidPos (k : K) (pos : Pos) (i : Nat) : Pos :=
  match k with
  | .jsxElement => if i == 1 then .childList else .normal
  | .jsxFragment => if i == 1 then .childList else .normal
  | .jsxAttr => if i == 1 then .jsxKid else .normal
  | .list => if pos == .childList then .jsxKid else .normal
  | _ => .normal

/-! ### hooks -/

/-- `visit_mut_stmts`: pending declarations drain into the statement list that just finished -/
def drainInto (items : List Node) (st : St) : List Node × St :=
  let (items, st) :=
    if !st.injectingConsts.isEmpty then
      (nVarDecl "const" st.injectingConsts :: items, { st with injectingConsts := [] })
    else (items, st)
  if !st.injectingVars.isEmpty then
    (nVarDecl "let" st.injectingVars :: items, { st with injectingVars := [], slotCounter := 1 })
  else (items, st)

/-- `visit_mut_arrow_expr` after its children -/
def drainArrow (n : Node) (st : St) : Node × St :=
  match n with
  | .mk .arrow as [params, body, tp, rt] =>
    if !st.injectingConsts.isEmpty || !st.injectingVars.isEmpty then
      match body with
      | .mk .block _ _ => (n, st)
      | ret =>
        let (stmts, st) :=
          if !st.injectingConsts.isEmpty then
            ([nVarDecl "const" st.injectingConsts], { st with injectingConsts := [] })
          else ([], st)
        let (stmts, st) :=
          if !st.injectingVars.isEmpty then
            (stmts ++ [nVarDecl "let" st.injectingVars], { st with injectingVars := [], slotCounter := 1 })
          else (stmts, st)
        (.mk .arrow as [params, nBlock (stmts ++ [nReturn ret]), tp, rt], st)
    else (n, st)
  | n => (n, st)

/-- `util::decouple_v_models`: every array entry becomes a `v-model` attribute in the array form -/
def decoupleVModels (elems : List Node) : List Node :=
  elems.filterMap fun el =>
    match el with
    | .mk .arg _ [.mk .array _ [.mk .list _ inner]] =>
      some (.mk .jsxAttr [] [nIdentName "v-model", .mk .jsxExprContainer [] [nArray inner]])
    | _ => none

def findVModels : List Node → Nat → Option Nat
  | [], _ => none
  | .mk .jsxAttr _ [.mk .ident (n :: _) _, _] :: rest, i => if n == "v-models" then some i else findVModels rest (i + 1)
  | _ :: rest, i => findVModels rest (i + 1)

/-- `visit_mut_jsx_opening_element` after its children -/
def openingHook (n : Node) (st : St) : Node × St :=
  match n with
  | .mk .jsxOpening as [nameN, .mk .list las attrs, ta] =>
    match findVModels attrs 0 with
    | none => (n, st)
    | some idx =>
      let value := match (attrs[idx]? : Option Node) with | some (.mk .jsxAttr _ [_, v]) => v | _ => nNone
      let before := attrs.take idx
      let after := attrs.drop (idx + 1)
      let msg := "Error: you should pass a Two-dimensional Arrays to v-models"
      match containerExpr value with
      | none => (.mk .jsxOpening as [nameN, .mk .list las (before ++ after), ta], st.err msg)
      | some e =>
        match arrayElems e with
        | none => (.mk .jsxOpening as [nameN, .mk .list las (before ++ after), ta], st.err msg)
        | some elems =>
          (.mk .jsxOpening as [nameN, .mk .list las (before ++ decoupleVModels elems ++ after), ta], st)
  | n => (n, st)

/-- the binding class of a named, un-aliased `defineComponent` specifier, if any -/
def importedDefineComponent (specs : List Node) : Option String :=
  specs.findSome? fun s =>
    match s with
    | .mk .importSpec _ [local_, .mk .none _ _] =>
      if identName local_ == "defineComponent" then some (identBind local_) else none
    | _ => none

/-- `visit_mut_import_decl` -/
def importHook (n : Node) (st : St) : St :=
  match n with
  | .mk .importDecl _ (.mk .list _ specs :: .mk .str (src :: _) _ :: _) =>
    if src != "vue" then st
    else
      match importedDefineComponent specs with
      | some b => { st with defineComponent := some b }
      | none => st
  | _ => st

/-- the part of `visit_mut_expr` that runs after the children were visited -/
def exprHook (o : Opts) (env : Env) (pos : Pos) (n : Node) (st : St) : Node × St :=
  if pos != .normal then (n, st) else
  match n with
  | .mk .jsxElement _ _ => trElement o env n st
  | .mk .jsxFragment _ _ => trFragment o env n st
  | .mk .assign _ [.mk .ident (name :: bind :: _) _, _] =>
    (n, { st with assignmentLeft := some (nIdent name bind) })
  | n => (n, st)

/-- the hook that runs for a node of a particular kind once its children were visited
    (`visit_mut_jsx_opening_element`, `visit_mut_import_decl`, `visit_mut_ts_interface_decl`,
     `visit_mut_ts_type_alias_decl`, `visit_mut_call_expr`, `visit_mut_var_declarator`);
    statement lists and arrows are handled in `visit` itself because they act before AND after their children -/
def kindHook (o : Opts) (env : Env) (n : Node) (st : St) : Node × St :=
  match n with
  | .mk .jsxOpening _ _ => openingHook n st
  | .mk .importDecl _ _ => (n, importHook n st)
  | .mk .call _ _ => callHook o env n st
  | .mk .declarator _ _ => declaratorHook o n st
  | n => (n, st)

/-- forget the pending declarations (they belong to an enclosing scope) -/
def St.clearPending (st : St) : St := { st with injectingConsts := [], injectingVars := [] }

mutual
def visit (o : Opts) (env : Env) : Node → Pos → St → Node × St
  | .mk k as ks, pos, st =>
    match k, ks with
    | .stmts, ks =>
      -- `visit_mut_stmts`: only what was created while visiting this list is declared here
      let (ks', st') := visitKids o env .stmts pos 0 ks st.clearPending
      let (items, st'') := drainInto ks' st'
      (.mk .stmts as items, { st'' with injectingConsts := st.injectingConsts, injectingVars := st.injectingVars })
    | .arrow, params :: rest =>
      -- `visit_mut_arrow_expr`: what the parameters need is left to the enclosing scope
      let (params', st1) := visit o env params (kidPos .arrow pos 0) st
      let (rest', st2) := visitKids o env .arrow pos 1 rest st1.clearPending
      let (n, st3) := drainArrow (.mk .arrow as (params' :: rest')) st2
      exprHook o env pos n { st3 with injectingConsts := st1.injectingConsts ++ st3.injectingConsts,
                                      injectingVars := st1.injectingVars ++ st3.injectingVars }
    | k, ks =>
      let (ks', st) := visitKids o env k pos 0 ks st
      let (n, st) := kindHook o env (Node.mk k as ks') st
      exprHook o env pos n st
def visitKids (o : Opts) (env : Env) (k : K) (pos : Pos) : Nat → List Node → St → List Node × St
  | _, [], st => ([], st)
  | i, c :: cs, st =>
    let (c', st) := visit o env c (kidPos k pos i) st
    let (cs', st) := visitKids o env k pos (i + 1) cs st
    (c' :: cs', st)
end

/-! ### module level -/

/-- `search_jsx_pragma` over the leading comments of one position -/
def pragmaOfComments (cs : List String) : Option String :=
  cs.findSome? fun c => (pragmaOfCommentText c.toList).map String.ofList

def scanPragmas (env : Env) (st : St) : St :=
  if !env.hasComments then st else
  env.comments.foldl (fun st cs =>
    match pragmaOfComments cs with
    | some p => { st with pragma := some p }
    | none => st) st

/-- `util::build_slot_helper(helper_name, is_vnode)` -/
def buildSlotHelper (helper isVNode : Node) (st : St) : Node × St :=
  let (s, st) := st.fresh "s"
  let body := nBin "||"
    (nBin "===" (nUnary "typeof" s) (nStr "function"))
    (nBin "&&"
      (nBin "===" (nCall (nMember (nMember (nObject []) "toString") "call") [nArg s]) (nStr "[object Object]"))
      (nUnary "!" (nCall isVNode [nArg s])))
  (.mk .fnDecl ["false", "false", "false"]
    [helper, nList [.mk .param [] [nList [], nBindingIdent s]], nList [], nBlock [nReturn body], nNone, nNone], st)

def nImportDecl (specs : List Node) (src : String) : Node :=
  .mk .importDecl ["false", "evaluation"] [nList specs, nStr src, nNone]

/-- the end of `visit_mut_module`: pending declarations, the slot helper and the imports are put in front -/
def finishModule (items : List Node) (st : St) : List Node × St :=
  let (items, st) := drainInto items st
  let (items, st) :=
    match st.slotHelper with
    | some h =>
      let (isVNode, st) := st.importFromVue "isVNode"
      let (decl, st) := buildSlotHelper h isVNode st
      (decl :: items, st)
    | none => (items, st)
  let items :=
    match st.transformOnHelper with
    | some h => nImportDecl [.mk .importDefault [] [h]] "@vue/babel-helper-vue-transform-on" :: items
    | none => items
  let items :=
    if !st.imports.isEmpty then
      nImportDecl (st.imports.map fun p => .mk .importSpec ["false"] [p.2, nQuoteIdent p.1]) "vue" :: items
    else items
  (items, st)

/-- `visit_mut_module` -/
def transformModule (o : Opts) (env : Env) (m : Node) : Node × St :=
  match m with
  | .mk .module as (.mk .list las items :: restKids) =>
    let st : St := scanPragmas env {}
    -- every interface / type alias of the module is registered up front
    let st := if o.resolveType then collectTypes m st else st
    let (items, st) := visitKids o env .list .normal 0 items st
    let (restKids, st) := visitKids o env .module .normal 1 restKids st
    let (items, st) := finishModule items st
    (.mk .module as (.mk .list las items :: restKids), st)
  | m => (m, ({} : St).panic "not a module")

end VueJsx
