/-
  Sem: what JSX source DENOTES (`denote`, written from the property statements C01–C05) and what the generated
  fragment EVALUATES to (`evalOut`, the JavaScript + Vue-runtime reading of createVNode / mergeProps /
  withDirectives / resolve* / slot objects / temporaries), both as trees in one semantic normal form.

  User expressions are uninterpreted (Herbrand): a node the transform does not generate is its own value, with its
  children normalised.  Both functions are post-order rewrites with LOCAL rules, so they are total and structural.

  Semantic nodes (kind `.other tag`):
    (vnode TAG PROPS KIDS DIRS HINTS)   — atoms: denote side records ["component"|"element"]; ignored by comparison
    (resolve 'name) (Fragment) (builtin 'vShow…) (resolveDir 'name) (text 's)
    PROPS = (props ITEM*)  ITEM = (seg 'mode ENTRY*) | (spreadPlain E) | (spreadMerge E) | (transformOn E)
            ENTRY = (p 'key V) | (pc KEYEXPR V);   for class/style/listener keys V = (cat PART*)
    KIDS  = (kids ARRAYITEM*) | (slots ENTRY*) | (slotcond X SLOTS) | (opaque E)
    DIRS  = (dirs (dir DEF VALUE ARG MODS)*)
-/
import VueJsx.Directive
import VueJsx.Attrs
import VueJsx.Canon

namespace VueJsx
open Text

def S (tag : String) (atoms : List String) (kids : List Node) : Node := .mk (.other tag) atoms kids

mutual
/-- post-order rewrite: children first, then the local rule -/
def post (rule : Node → Node) : Node → Node
  | .mk k as ks => rule (.mk k as (postL rule ks))
def postL (rule : Node → Node) : List Node → List Node
  | [] => []
  | x :: xs => post rule x :: postL rule xs
end

/-! ### props normal form -/

/-- Vue's listener test `/^on[^a-z]/` -/
def vueIsOn (k : String) : Bool := isOn k.toList
def isConcatKey (k : String) : Bool := k == "class" || k == "style" || vueIsOn k

inductive PropOp where
  | set (key : String) (v : Node)        -- plain JS object semantics
  | merge (key : String) (v : Node)      -- Vue mergeProps of the singleton {key: v}
  | setC (key : Node) (v : Node)         -- computed key (plain)
  | mergeC (key : Node) (v : Node)
  | spreadPlain (e : Node)
  | spreadMerge (e : Node)
  | transformOn (e : Node)
  deriving Inhabited

/-- the parts a class/style/listener value contributes (array literals are flattened, as Vue does) -/
def catParts (fuel : Nat) (v : Node) : List Node :=
  match fuel with
  | 0 => [v]
  | fuel + 1 =>
    match v with
    | .mk .array _ [.mk .list _ elems] =>
      -- a spread element contributes the (flattened) elements of its operand: `[...xs, a]` and `[xs, a]` normalise alike
      if elems.all (fun e => match e with | .mk .arg _ [_] => true | .mk .spreadArg _ [_] => true | _ => false) then
        elems.flatMap fun e => match e with | .mk .arg _ [x] => catParts fuel x | .mk .spreadArg _ [x] => catParts fuel x | _ => []
      else [v]
    | .mk (.other "cat") _ parts => parts
    | v => [v]

structure Seg where
  mode : String                       -- "init" | "merge" | "plain"
  entries : List (Node × Node × Bool) -- key node (str or computed expr), value, isStaticKey
  deriving Inhabited

def keyNode (k : String) : Node := nStr k

def segUpsert (s : Seg) (key : Node) (static : Bool) (concat : Bool) (merge : Bool) (v : Node) : Seg :=
  let newV (old : Option Node) : Node :=
    if concat then
      let oldParts := match old with | some o => (if merge then catParts 8 o else []) | none => []
      S "cat" [] (oldParts ++ catParts 8 v)
    else v
  if static && s.entries.any (fun e => e.2.2 && e.1 == key) then
    { s with entries := s.entries.map fun e => if e.2.2 && e.1 == key then (e.1, newV (some e.2.1), true) else e }
  else { s with entries := s.entries ++ [(key, newV none, static)] }

def segNode (s : Seg) : Node :=
  S "seg" [s.mode] (s.entries.map fun e =>
    if e.2.2 then S "p" [match e.1 with | .mk .str (k :: _) _ => k | _ => "?"] [e.2.1] else S "pc" [] [e.1, e.2.1])

/-- static key of an object-literal property key node -/
def staticKeyOf : Node → Option String
  | .mk .str (k :: _) _ => some k
  | .mk .ident (k :: _) _ => some k
  | .mk .num (k :: _) _ => some k
  | _ => none

/-- operations of ONE object literal evaluated with JavaScript's own semantics (`set`, plain spread) -/
def objLitOpsPlain (props : List Node) : List PropOp :=
  props.map fun p =>
    match p with
    | .mk .kv _ [.mk .computed _ [k], v] => .setC k v
    | .mk .kv _ [k, v] => (match staticKeyOf k with | some s => .set s v | none => .setC k v)
    | .mk .ident (n :: r) ks => .set n (.mk .ident (n :: r) ks)           -- shorthand
    | .mk .spreadElement _ [e] => .spreadPlain e
    | other => .spreadPlain other                                          -- methods/getters: kept opaque

/-- merging a layer into the EMPTY props object is the layer itself: a leading spread is mode-independent,
    and a leading object literal is just that literal -/
def headOps (ops : List PropOp) : List PropOp :=
  match ops with
  | .spreadMerge (.mk .object _ [.mk .list _ props]) :: rest => objLitOpsPlain props ++ rest
  | .spreadPlain (.mk .object _ [.mk .list _ props]) :: rest => objLitOpsPlain props ++ rest
  | ops => ops

/-- normal form of a sequence of property operations -/
def normOps (ops0 : List PropOp) : Node :=
  let ops := headOps ops0
  let step (acc : List Node × Option Seg × Bool) (op : PropOp) : List Node × Option Seg × Bool :=
    let (done, cur, first) := acc
    let open_ (mode : String) : Seg :=
      match cur with
      | some s => s
      | none => { mode := if first then "init" else mode, entries := [] }
    let close : List Node := match cur with | some s => done ++ [segNode s] | none => done
    let lead := first && cur.isNone && done.isEmpty      -- nothing before: the spread is the object itself
    match op with
    | .set k v => (done, some (segUpsert (open_ "plain") (keyNode k) true (isConcatKey k) false v), first)
    | .merge k v => (done, some (segUpsert (open_ "merge") (keyNode k) true (isConcatKey k) true v), first)
    | .setC k v => (done, some (segUpsert (open_ "plain") k false false false v), first)
    | .mergeC k v => (done, some (segUpsert (open_ "merge") k false false true v), first)
    | .spreadPlain e => (close ++ [S (if lead then "spread" else "spreadPlain") [] [e]], none, false)
    | .spreadMerge e => (close ++ [S (if lead then "spread" else "spreadMerge") [] [e]], none, false)
    | .transformOn e => (close ++ [S "transformOn" [] [e]], none, false)
  let (done, cur, _) := ops.foldl step ([], none, true)
  S "props" [] (match cur with | some s => done ++ [segNode s] | none => done)

/-- an object literal with only static key/value entries, as its (JS-deduplicated) entries -/
def simpleLiteralEntries (props : List Node) : Option (List (String × Node)) :=
  let ok := props.all fun p =>
    match p with
    | .mk .kv _ [.mk .computed _ _, _] => false
    | .mk .kv _ [k, _] => (staticKeyOf k).isSome
    | .mk .ident _ _ => true
    | _ => false
  if !ok then none else
  some (props.foldl (fun (acc : List (String × Node)) p =>
    let (k, v) : String × Node :=
      match p with
      | .mk .kv _ [k, v] => ((staticKeyOf k).getD "?", v)
      | .mk .ident (n :: r) ks => (n, .mk .ident (n :: r) ks)
      | _ => ("?", nNull)
    if acc.any (·.1 == k) then acc.map (fun e => if e.1 == k then (k, v) else e) else acc ++ [(k, v)]) [])

/-- one layer handed to Vue's `mergeProps` (or one attribute-level spread under mergeProps) -/
def layerOpsMerge (e : Node) : List PropOp :=
  match e with
  | .mk .object _ [.mk .list _ props] =>
    match simpleLiteralEntries props with
    | some es => es.map fun kv => .merge kv.1 kv.2
    | none => [.spreadMerge e]
  | .mk (.other "transformOnCall") _ [x] => [.transformOn x]
  | e => [.spreadMerge e]

/-! ### EVAL: the generated fragment -/

/-- role table of generated identifiers: binding class ↦ role -/
abbrev Roles := List (String × String)

def rolesOfModule (m : Node) : Roles :=
  match m with
  | .mk .module _ (.mk .list _ items :: _) =>
    items.flatMap fun it =>
      match it with
      | .mk .importDecl _ (.mk .list _ specs :: .mk .str (src :: _) _ :: _) =>
        if src == "vue" then
          specs.filterMap fun s =>
            match s with
            | .mk .importSpec _ [.mk .ident (_ :: b :: _) _, .mk .ident (imp :: _) _] =>
              if isGenBind b then some (b, imp) else none
            | _ => none
        else if src == "@vue/babel-helper-vue-transform-on" then
          specs.filterMap fun s =>
            match s with
            | .mk .importDefault _ [.mk .ident (_ :: b :: _) _] => if isGenBind b then some (b, "transformOn!") else none
            | _ => none
        else []
      | .mk .fnDecl _ (.mk .ident (_ :: b :: _) _ :: _) => if isGenBind b then [(b, "isSlot!")] else []
      | _ => []
  | _ => []

/-- generated `const _x = function () { return x }()` declarations (copies of reassigned variables), anywhere -/
def capturedRoles (m : Node) : Roles :=
  let isDecl (n : Node) : Bool := match n with | .mk .declarator _ _ => true | _ => false
  let rec collectDecls (fuel : Nat) (n : Node) : List Node :=
    match fuel with
    | 0 => []
    | fuel + 1 => (if isDecl n then [n] else []) ++ n.kids.flatMap (collectDecls fuel)
  (collectDecls 200 m).filterMap fun d =>
    match d with
    | .mk .declarator _ [.mk .ident (_ :: b :: _) _,
        .mk .call ("syn" :: _) [.mk .fnExpr _ [_, _, _, .mk .block _ [.mk .stmts _ [.mk .ret _ [.mk .ident _ _]]], _, _], _, _]] =>
      if isGenBind b then some (b, "captured!") else none
    | _ => none

def roleOf (roles : Roles) (pragma : Option String) (callee : Node) : Option String :=
  match callee with
  | .mk .ident (n :: b :: _) _ =>
    match roles.find? (fun r => r.1 == b) with
    | some r => some r.2
    | none => if b == "e" && pragma == some n then some "createVNode" else none
  | _ => none

def unArg : Node → Node
  | .mk .arg _ [e] => e
  | n => n

/-- PROPS of the second argument of a vnode call (already normalised bottom-up) -/
def evalProps (e : Node) : Node :=
  match e with
  | .mk .null _ _ => S "props" [] []
  | .mk .object _ [.mk .list _ props] => normOps (objLitOpsPlain props)
  | .mk (.other "mergePropsCall") _ layers => normOps (layers.flatMap layerOpsMerge)
  | .mk (.other "transformOnCall") _ [x] => normOps [.transformOn x]
  | e => normOps [.spreadMerge e]      -- a lone spread: the value itself is the props object

def isHintEntry : Node → Bool
  | .mk .kv _ [.mk .ident ("_" :: "n" :: _) _, .mk .num _ _] => true
  | _ => false

def slotsEntries (props : List Node) : List Node :=
  (props.filter (!isHintEntry ·)).map fun p =>
    match p with
    | .mk .kv _ [.mk .computed _ [k], v] => S "pc" [] [k, v]
    | .mk .kv _ [k, v] => (match staticKeyOf k with | some s => S "p" [s] [v] | none => S "pc" [] [k, v])
    | .mk .ident (n :: r) ks => S "p" [n] [.mk .ident (n :: r) ks]
    | .mk .spreadElement _ [e] => S "spread" [] [e]
    | o => o

def hintOfSlots (props : List Node) : Node :=
  match props.find? isHintEntry with
  | some (.mk .kv _ [_, v]) => v
  | _ => nNone

/-- KIDS of the third argument of a vnode call; returns (kids, slot-flag hint) -/
def evalKids (e : Node) : Node × Node :=
  match e with
  | .mk .null _ _ => (S "kids" [] [], nNone)
  | .mk .array _ [.mk .list _ items] => (S "kids" [] items, nNone)
  | .mk .object _ [.mk .list _ props] => (S "slots" [] (slotsEntries props), hintOfSlots props)
  | .mk (.other "slotcond") _ [x, .mk .object _ [.mk .list _ props]] =>
    (S "slotcond" [] [x, S "slots" [] (slotsEntries props)], hintOfSlots props)
  | e => (S "opaque" [] [e], nNone)

def evalDirEntry (entry : Node) : Node :=
  match unArg entry with
  | .mk .array _ [.mk .list _ parts] =>
    let get (i : Nat) : Option Node := (parts[i]?).map unArg
    let arg := match get 2 with
      | some (.mk .unary ["void"] [.mk .num ["0"] _]) => S "undef" [] []
      | some a => a
      | none => S "undef" [] []
    let mods := match get 3 with
      | some (.mk .object _ [.mk .list _ ps]) =>
        S "mods" (ps.filterMap fun p => match p with | .mk .kv _ [k, .mk .bool ["true"] _] => staticKeyOf k | _ => none) []
      | some m => m
      | none => S "mods" [] []
    S "dir" [] [(get 0).getD nNone, (get 1).getD nNone, arg, mods]
  | e => S "dir?" [] [e]

/-- replace every occurrence of the generated temporary `bind` by `by_` -/
def substGen (bind : String) (by_ : Node) : Node → Node :=
  post fun n =>
    match n with
    | .mk .ident (_ :: b :: _) _ => if b == bind then by_ else n
    | n => n

/-- `<a.b.C>` denotes `a.b.C`; `<this.C>` denotes `this.C` (children already rewritten by the post-order pass) -/
def memberOfJsx : Node → Node
  | .mk .jsxMember _ [obj, prop] =>
    let o := match obj with
      | .mk .ident ("this" :: _) _ => .mk (.other "ThisExpression") [] []
      | .mk .ident as _ => .mk .ident as []
      | m => m
    -- a property that is not an identifier name can only be written `a["b-c"]` (same value)
    let p := match prop with
      | .mk .ident (name :: _) _ => if isValidPropIdent name then prop else nComputed (nStr name)
      | p => p
    .mk .member [] [o, p]
  | n => n

/-- local rule of `evalOut` (children are already normalised) -/
def evalRule (roles : Roles) (pragma : Option String) (n : Node) : Node :=
  match n with
  | .mk .ident (_ :: b :: _) _ =>
    match roles.find? (fun r => r.1 == b) with
    | some (_, "Fragment") => S "Fragment" [] []
    | some (_, "captured!") => S "captured" [identName n] []
    | some (_, role) =>
      if ["vShow", "vModelText", "vModelCheckbox", "vModelRadio", "vModelSelect", "vModelDynamic"].contains role
      then S "builtin" [role] [] else n
    | none => n
  | .mk .call ("syn" :: _) [callee, .mk .list _ args, _] =>
    match roleOf roles pragma callee with
    | some "createVNode" =>
      match args.map unArg with
      | tag :: props :: kids :: hints =>
        let (k, slotHint) := evalKids kids
        S "vnode" [] [tag, evalProps props, k, S "dirs" [] [], S "hints" [] (hints ++ [slotHint])]
      | _ => n
    | some "withDirectives" =>
      match args.map unArg with
      | [.mk (.other "vnode") as [tag, props, kids, _, hints], .mk .array _ [.mk .list _ entries]] =>
        .mk (.other "vnode") as [tag, props, kids, S "dirs" [] (entries.map evalDirEntry), hints]
      | _ => n
    | some "createTextVNode" =>
      match args.map unArg with
      | [.mk .str (s :: _) _] => S "text" [s] []
      | _ => n
    | some "resolveComponent" =>
      match args.map unArg with
      | [.mk .str (s :: _) _] => S "resolve" [s] []
      | _ => n
    | some "resolveDirective" =>
      match args.map unArg with
      | [.mk .str (s :: _) _] => S "resolveDir" [s] []
      | _ => n
    | some "mergeProps" => S "mergePropsCall" [] (args.map unArg)
    | some "transformOn!" =>
      match args.map unArg with
      | [x] => S "transformOnCall" [] [x]
      | _ => n
    | some "isSlot!" =>
      match args.map unArg with
      | [x] => S "isSlotCall" [] [x]
      | _ => n
    | _ => n
  | .mk .cond _ [.mk (.other "isSlotCall") _ [t], cons, alt] =>
    -- `_isSlot(x) ? x : {default: () => [x]}`   or   `_isSlot(_slot = e) ? _slot : {default: () => [_slot]}`
    match t with
    | .mk .assign ["="] [.mk .paren _ [.mk .ident (tn :: tb :: _) _], e] =>
      if isGenBind tb && cons == nIdent tn tb then S "slotcond" [] [e, substGen tb e alt] else n
    | x => if cons == x then S "slotcond" [] [x, alt] else n
  | .mk .jsxMember as ks => memberOfJsx (.mk .jsxMember as ks)     -- a member tag denotes the member expression
  | n => n

/-- is this statement one the transform inserted (import of helpers, `_isSlot`, temporaries)? -/
def isInsertedStmt (roles : Roles) (s : Node) : Bool :=
  match s with
  | .mk .importDecl _ (.mk .list _ specs :: _) =>
    !specs.isEmpty && specs.all fun sp =>
      match sp with
      | .mk .importSpec _ (.mk .ident (_ :: b :: _) _ :: _) => isGenBind b
      | .mk .importDefault _ [.mk .ident (_ :: b :: _) _] => isGenBind b
      | _ => false
  | .mk .fnDecl _ (.mk .ident (_ :: b :: _) _ :: _) => isGenBind b && roles.any (fun r => r.1 == b)
  | .mk .varDecl _ [.mk .list _ decls] =>
    !decls.isEmpty && decls.all fun d =>
      match d with
      | .mk .declarator _ (.mk .ident (_ :: b :: _) _ :: _) => isGenBind b
      | _ => false
  | _ => false

/- `stripRule`: strips inserted statements from statement lists and un-blocks synthetic arrow bodies — but only those the
    transform had a reason to create (a declaration was inserted into them): `(x) => e` turned into
    `(x) => { return e; }` with nothing declared is a change of the user's code -/
/-- the bindings a (variable) declaration statement declares -/
def declBindsOf (st : Node) : List String :=
  match st with
  | .mk .varDecl _ [.mk .list _ decls] =>
    decls.filterMap fun d => match d with
      | .mk .declarator _ (.mk .ident (_ :: bnd :: _) _ :: _) => some bnd
      | _ => none
  | _ => []

mutual
def mentionsAny (bs : List String) : Node → Bool
  | .mk .ident (_ :: b :: _) _ => bs.contains b
  | .mk _ _ ks => mentionsAnyL bs ks
def mentionsAnyL (bs : List String) : List Node → Bool
  | [] => false
  | x :: xs => mentionsAny bs x || mentionsAnyL bs xs
end

def stripRule (roles : Roles) (n : Node) : Node :=
  match n with
  | .mk .stmts as items =>
    let kept := items.filter (!isInsertedStmt roles ·)
    -- the tag remembers WHICH bindings the removed declarations declared
    let gone := (items.filter (isInsertedStmt roles ·)).flatMap declBindsOf
    if kept.length != items.length then .mk .stmts ("stripped!" :: ",".intercalate gone :: as) kept else .mk .stmts as kept
  | .mk .module as (.mk .list las items :: rest) => .mk .module as (.mk .list las (items.filter (!isInsertedStmt roles ·)) :: rest)
  | .mk .arrow as [params, .mk .block ("syn" :: _) [.mk .stmts ("stripped!" :: gone :: _) [.mk .ret _ [e]]], tp, rt] =>
    -- ... and the body is un-blocked only when the expression USES one of them: a declaration put into an arrow that has no use
    -- for it (`(x) => x * 2` turned into `(x) => { const _t = ...; return x * 2; }`) is a change of the user's code
    if mentionsAny (gone.splitOn ",") e then .mk .arrow as [params, e, tp, rt] else n
  | n => n

def untagRule (n : Node) : Node :=
  match n with
  | .mk .stmts ("stripped!" :: _ :: as) items => .mk .stmts as items
  | n => n

/-- the output without the statements the transform inserted -/
def stripAll (roles : Roles) (out : Node) : Node := post untagRule (post (stripRule roles) out)

def evalOut (pragma : Option String) (out : Node) : Node :=
  let roles := rolesOfModule out ++ capturedRoles out
  post (evalRule roles pragma) (stripAll roles out)

/-! ### C12: what `optimize` may add -/

/-- removes the trailing reserved `_` entry, if there is one -/
def dropHintEntries (props : List Node) : List Node :=
  match props.reverse with
  | last :: restRev => if isHintEntry last then restRev.reverse else props
  | [] => props

/-- the children argument with the reserved `_` entry of slot objects removed -/
def eraseSlotHint (kids : Node) : Node :=
  match kids with
  | .mk .object as [.mk .list las props] => .mk .object as [.mk .list las (dropHintEntries props)]
  | .mk .cond as [t, c, .mk .object oas [.mk .list las props]] =>
    .mk .cond as [t, c, .mk .object oas [.mk .list las (dropHintEntries props)]]
  | k => k

/-- C12: erase what `optimize` is allowed to add: arguments 4–5 of vnode calls and the `_` entry of slot objects -/
def eraseHintsRule (roles : Roles) (pragma : Option String) (n : Node) : Node :=
  match n with
  | .mk .call ("syn" :: as) [callee, .mk .list las args, ta] =>
    if roleOf roles pragma callee == some "createVNode" then
      match args with
      | a :: b :: .mk .arg aas [kids] :: _ => .mk .call ("syn" :: as) [callee, .mk .list las [a, b, .mk .arg aas [eraseSlotHint kids]], ta]
      | _ => n
    else n
  | n => n

def eraseHints (pragma : Option String) (out : Node) : Node :=
  post (eraseHintsRule (rolesOfModule out) pragma) out


/-! ### DENOTE: the JSX source, read off the property statements -/

structure DCtx where
  o : Opts
  env : Env
  deriving Inhabited

/-- names read as Vue's Fragment: `Fragment` itself and the conventional aliases `_Fragment`, `Fragment2`, …
    (the rule of @vue/babel-plugin-jsx; the statement says "Fragment") -/
def isFragmentLike (name : String) : Bool :=
  let n := match name.toList with | '_' :: r => r | r => r
  match stripPrefix "Fragment".toList n with
  | some rest => rest.all fun c => '0' ≤ c && c ≤ '9'
  | none => false

/-- C03: a component host is any tag other than HTML/SVG names, custom-element patterns, Fragment and KeepAlive -/
def denoteIsComponent (c : DCtx) (nameN : Node) : Bool :=
  match nameN with
  | .mk .ident (n :: _) _ =>
    !(firstLower n && c.env.isKnown n) && !c.env.isPat n && !isFragmentLike n && n != "KeepAlive"
  | .mk .member _ [_, p] => identName p != "KeepAlive" && !isFragmentLike (identName p)
  | _ => true
where firstLower (s : String) : Bool := match s.toList with | ch :: _ => isAsciiLower ch | [] => false

/-- C01: what the tag denotes -/
def denoteTag (c : DCtx) (nameN : Node) : Node :=
  match nameN with
  | .mk .ident (n :: b :: _) _ =>
    if (match n.toList with | ch :: _ => isAsciiLower ch | [] => false) && c.env.isKnown n then nStr n
    else if n == "Fragment" then S "Fragment" [] []
    else if c.env.isPat n then nStr n
    else if b == "u" then S "resolve" [n] []
    else nIdent n b
  | n => n

/-- the written value of an attribute (C01): strings whitespace-normalised, value-less = true -/
def denoteAttrValue (v : Node) : Node :=
  match v with
  | .mk .none _ _ => nBool true
  | .mk .str (s :: _) _ => nStr (String.ofList (cleanText s.toList))
  | .mk .jsxExprContainer _ [e] => e
  | v => v           -- an element/fragment value has already been denoted to a vnode by the post-order pass

/-- C04: directive name — prefix removed, first letter lower-cased -/
def denoteDirName (raw : String) : String :=
  let body := match raw.toList with
    | 'v' :: '-' :: r => r
    | 'v' :: r => r
    | r => r
  match body with
  | ch :: r => String.ofList (asciiLower ch :: r)
  | [] => ""

structure DDir where
  name : String
  arg : Option Node
  mods : List String
  value : Node
  /-- value shape outside C04's quantifier (absent value, empty array, hole/spread first element, `{}`) -/
  ood : Bool := false
  deriving Inhabited

/-- C04/C05: name, argument, modifiers and value of a directive attribute, however it is spelled -/
def denoteDirective (name : AttrName) (value : Node) : DDir :=
  let (rawName, nsArg) : String × Option String :=
    match name with
    | .plain s => (s, none)
    | .ns ns n => (ns, some n)
    | .bad => ("", none)
  -- `_mod` suffixes: on the local part of a namespaced name, else on the name itself
  let (base, argS, sufMods) : String × Option String × List String :=
    match nsArg with
    | some a =>
      match (splitOn '_' a.toList).map String.ofList with
      | a0 :: ms => (rawName, some a0, ms)
      | [] => (rawName, some a, [])
    | none =>
      match (splitOn '_' rawName.toList).map String.ofList with
      | n0 :: ms => (n0, none, ms)
      | [] => (rawName, none, [])
  let dname := denoteDirName base
  let vexpr : Option Node :=
    match value with
    | .mk .jsxExprContainer _ [.mk .jsxEmpty _ _] => none
    | .mk .jsxExprContainer _ [e] => some e
    | .mk .str as ks => some (.mk .str as ks)
    | _ => none
  let strs (elems : List Node) : List String :=
    setOfList (elems.filterMap fun e => match e with | .mk .arg _ [.mk .str (s :: _) _] => some s | _ => none)
  match vexpr.bind arrayElems with
  | some elems =>
    -- array form: [value], [value, arg], [value, [mods]], [value, arg, [mods]]
    let v := (plainElem elems 0).getD (S "undef" [] [])
    let ood := (plainElem elems 0).isNone
    match plainElem elems 1 with
    | some second =>
      match arrayElems second with
      | some ms => { name := dname, arg := argS.map nStr, mods := strs ms, value := v, ood := ood }
      | none =>
        let arg := match argS with | some a => some (nStr a) | none => some second
        match (plainElem elems 2).bind arrayElems with
        | some ms => { name := dname, arg := arg, mods := strs ms, value := v, ood := ood }
        -- "its modifiers are the `_mod` suffixes or the array-form list": no list in the array, so the suffixes
        | none => { name := dname, arg := arg, mods := setOfList sufMods, value := v, ood := ood }
    | none => { name := dname, arg := argS.map nStr, mods := setOfList sufMods, value := v, ood := ood }
  | none => { name := dname, arg := argS.map nStr, mods := setOfList sufMods, value := vexpr.getD (S "undef" [] []),
              ood := vexpr.isNone }

/-- an expression that can stand on the left of `=` (JavaScript's simple assignment targets, looking through parentheses and
    TypeScript's type-only wrappers) -/
def specAssignable : Node → Bool
  -- a module is strict code, in which `eval` and `arguments` are not assignment targets (ECMA-262 13.15.1)
  | .mk .ident as _ => as.head? != some "eval" && as.head? != some "arguments"
  | .mk .member _ _ => true
  | .mk (.other "SuperPropExpression") _ _ => true
  | .mk .paren _ [e] => specAssignable e
  | .mk (.other "TsAsExpression") _ [e, _] => specAssignable e
  | .mk (.other "TsNonNullExpression") _ [e] => specAssignable e
  | .mk (.other "TsSatisfiesExpression") _ [e, _] => specAssignable e
  | .mk (.other "TsTypeAssertion") _ [e, _] => specAssignable e
  | _ => false

def nSetter (target : Node) : Node := nModelListener target

/-- C05: which Vue model directive a form element gets -/
def modelDirOf (tagN : Node) (attrs : List Node) : String :=
  match tagN with
  | .mk .ident ("select" :: _) _ => "vModelSelect"
  | .mk .ident ("textarea" :: _) _ => "vModelText"
  | _ =>
    let typ : Option Node := attrs.findSome? fun a =>
      match a with
      | .mk .jsxAttr _ [.mk .ident ("type" :: _) _, v] => if isNone v then none else some v
      | _ => none
    match typ with
    | some (.mk .str ("checkbox" :: _) _) => "vModelCheckbox"
    | some (.mk .str ("radio" :: _) _) => "vModelRadio"
    | some (.mk .str _ _) => "vModelText"
    | none => "vModelText"
    | some _ => "vModelDynamic"

def modsNode (ms : List String) : Node := S "mods" ms []

structure DAcc where
  ops : List PropOp := []          -- merge mode: one operation per written attribute
  run : List Node := []            -- plain mode: the current run, as the entries of ONE object literal
  layers : List PropOp := []       -- plain mode: finished runs / transformOn layers
  dirs : List Node := []
  vslots : Option Node := none
  feats : List String := []
  deriving Inhabited

/-- expands `v-models={[[a,'x'],[b]]}` into the same-order sequence of `v-model` attributes (C05) -/
def expandVModels (attrs : List Node) : List Node :=
  attrs.flatMap fun a =>
    match a with
    | .mk .jsxAttr _ [.mk .ident ("v-models" :: _) _, .mk .jsxExprContainer _ [.mk .array _ [.mk .list _ elems]]] =>
      elems.filterMap fun el =>
        match el with
        | .mk .arg _ [.mk .array _ [.mk .list _ inner]] =>
          some (.mk .jsxAttr [] [nIdentName "v-model", .mk .jsxExprContainer [] [nArray inner]])
        | _ => none
    | a => [a]

def flushRun (acc : DAcc) : DAcc :=
  if acc.run.isEmpty then acc
  else { acc with layers := acc.layers ++ layerOpsMerge (nObject acc.run), run := [] }

/-- add the property `key: v` (static key) -/
def addProp (c : DCtx) (acc : DAcc) (k : String) (v : Node) : DAcc :=
  if c.o.mergeProps then { acc with ops := acc.ops ++ [.merge k v] }
  else { acc with run := acc.run ++ [nKV (nStr k) v] }

/-- add the property `[k]: v` (computed key) -/
def addPropC (c : DCtx) (acc : DAcc) (k v : Node) : DAcc :=
  if c.o.mergeProps then { acc with ops := acc.ops ++ [.mergeC k v] }
  else { acc with run := acc.run ++ [nKV (nComputed k) v] }

def addFeat (acc : DAcc) (f : String) : DAcc := { acc with feats := insertUnique f acc.feats }

/-- one written attribute, in source order.
    mergeProps on : every attribute is its own layer, combined by Vue's mergeProps.
    mergeProps off: the attributes form ONE object literal with JavaScript's last-wins semantics (spreads inline);
                    only a transformOn `on` object is a layer of its own, merged with what is around it. -/
def denoteAttr (c : DCtx) (isComp : Bool) (tagN : Node) (allAttrs : List Node) (acc : DAcc) (a : Node) : DAcc :=
  match a with
  | .mk .spreadElement _ [e] =>
    if c.o.mergeProps then { acc with ops := acc.ops ++ layerOpsMerge e }
    else
      match e with
      | .mk .object _ [.mk .list _ props] => { acc with run := acc.run ++ props }
      | e => { acc with run := acc.run ++ [nSpreadElement e] }
  | .mk .jsxAttr _ [nameN, valueN] =>
    let name := attrNameOf nameN
    if isDirectiveAttrName name then
      let d := denoteDirective name valueN
      if d.name == "slots" then
        match d.value with
        | .mk .ident as ks => { acc with vslots := some (.mk .ident as ks) }
        | .mk .object as ks => { acc with vslots := some (.mk .object as ks) }
        -- any other expression (`this.$slots`, `getSlots()`, `c ? a : b`) is a slots object like an identifier: its entries are
        -- merged beside `default` (it is spread); a value shape outside the directive forms (absent, a string) denotes nothing
        | e => if d.ood then acc else { acc with vslots := some e }
      else if d.name == "html" then addProp c (addFeat (if d.ood then addFeat acc "ood-directive-value" else acc) "has-vhtml-vtext") "innerHTML" d.value
      else if d.name == "text" then addProp c (addFeat (if d.ood then addFeat acc "ood-directive-value" else acc) "has-vhtml-vtext") "textContent" d.value
      else if d.name == "model" then
        let acc := addFeat acc "has-vmodel"
        -- a two-way binding needs a target that can be assigned to (C05's quantifier: identifier, member, index); anything else
        -- is malformed usage: outside the denotation (C07 demands that it is reported)
        let acc := if d.ood || !specAssignable d.value then addFeat acc "ood-directive-value" else acc
        let modsObj : Node := nObject (d.mods.map fun m => nKV (nStr m) (nBool true))
        if isComp then
          -- prop `modelValue` (or the argument name), `<arg>Modifiers`, listener `onUpdate:<name>`
          match d.arg with
          | none =>
            let acc := addProp c acc "modelValue" d.value
            let acc := if d.mods.isEmpty then acc else addProp c acc "modelModifiers" modsObj
            addProp c acc "onUpdate:modelValue" (nSetter d.value)
          | some (.mk .str (s :: _) _) =>
            let acc := addProp c acc s d.value
            let acc := if d.mods.isEmpty then acc else addProp c acc (s ++ "Modifiers") modsObj
            addProp c acc ("onUpdate:" ++ s) (nSetter d.value)
          | some e =>
            let acc := addFeat acc "vmodel-computed-arg"
            let acc := addPropC c acc e d.value
            let acc := if d.mods.isEmpty then acc else addPropC c acc (nBin "+" e (nStr "Modifiers")) modsObj
            addPropC c acc (nBin "+" (nStr "onUpdate:") e) (nSetter d.value)
        else
          let acc := if d.arg.isSome then addFeat acc "vmodel-arg-on-element" else acc
          let arg := match d.arg with | some (.mk .unary ["void"] [.mk .num ["0"] _]) => S "undef" [] [] | some a => a | none => S "undef" [] []
          let dir := S "dir" [] [S "builtin" [modelDirOf tagN allAttrs] [], d.value, arg, modsNode d.mods]
          addProp c { acc with dirs := acc.dirs ++ [dir] } "onUpdate:modelValue" (nSetter d.value)
      else
        let def_ := if d.name == "show" then S "builtin" ["vShow"] [] else S "resolveDir" [d.name] []
        let arg := match d.arg with | some (.mk .unary ["void"] [.mk .num ["0"] _]) => S "undef" [] [] | some a => a | none => S "undef" [] []
        let acc := if d.ood then addFeat acc "ood-directive-value" else acc
        { acc with dirs := acc.dirs ++ [S "dir" [] [def_, d.value, arg, modsNode d.mods]] }
    else
      let attrName := match name with | .plain s => s | .ns a b => a ++ ":" ++ b | .bad => ""
      let v := denoteAttrValue valueN
      if c.o.transformOn && (attrName == "on" || attrName == "nativeOn") then
        if c.o.mergeProps then { acc with ops := acc.ops ++ [.transformOn v] }
        else
          let acc := flushRun acc
          { acc with layers := acc.layers ++ [.transformOn v] }
      else addProp c acc attrName v
  | _ => acc

/-- the denoted props of an element -/
def denoteProps (c : DCtx) (acc : DAcc) : Node :=
  if c.o.mergeProps then normOps acc.ops else normOps (flushRun acc).layers

/-- a non-concatenating key written twice within one spread-free run while mergeProps is on: the visitor (like the
    Babel plugin) keeps the FIRST occurrence and drops the others; the properties quantify over repeated
    class/style/listeners only, so such elements are outside their domain -/
def hasDroppedDup (ops : List PropOp) : Bool :=
  let rec go (ops : List PropOp) (seen : List String) : Bool :=
    match ops with
    | [] => false
    | .merge k _ :: rest => if !isConcatKey k && seen.contains k then true else go rest (k :: seen)
    | .mergeC _ _ :: rest => go rest seen
    | _ :: rest => go rest []
  go ops []

/-- C02: the children an element receives, in order -/
def denoteChildItems (children : List Node) : List Node :=
  children.filterMap fun ch =>
    match ch with
    | .mk .jsxText (t :: _) _ =>
      let s := String.ofList (cleanText t.toList)
      if s.isEmpty then none else some (nArg (S "text" [s] []))
    | .mk .jsxExprContainer _ [.mk .jsxEmpty _ _] => none
    | .mk .jsxExprContainer _ [e] => some (nArg e)
    | .mk .jsxSpreadChild _ [e] => some (nSpreadArg e)
    | .mk (.other "vnode") as ks => some (nArg (.mk (.other "vnode") (as ++ ["direct"]) ks))   -- direct JSX nesting
    | v => some (nArg v)

def vslotsEntries (vs : Option Node) : List Node :=
  match vs with
  | some (.mk .object _ [.mk .list _ props]) => slotsEntries props
  | some e => [S "spread" [] [e]]
  | none => []

/-- C02/C03: children of a non-component host are the list; of a component host, slots -/
def denoteKids (c : DCtx) (isComp : Bool) (children : List Node) (vslots : Option Node) : Node :=
  let items := denoteChildItems children
  let wrapped : Node := S "slots" [] (S "p" ["default"] [nArrow [] (nArray items)] :: vslotsEntries vslots)
  match items with
  | [] =>
    match vslots with
    | some (.mk .object _ [.mk .list _ props]) => S "slots" [] (slotsEntries props)
    | some e => S "opaque" [] [e]
    | none => S "kids" [] []
  | [.mk .arg _ [e]] =>
    if !isComp then
      match e with
      | .mk .fnExpr _ _ => S "ood" ["sole function child of a non-component host"] []
      | .mk .arrow _ _ => S "ood" ["sole function child of a non-component host"] []
      | .mk .object _ _ => S "ood" ["sole object-literal child of a non-component host"] []
      | _ => S "kids" [] items
    else
      match e with
      -- a single function child is the `default` slot itself, a single object literal is the slots object;
      -- `v-slots` entries are merged beside them (C03)
      | .mk .fnExpr _ _ => S "slots" [] (S "p" ["default"] [e] :: vslotsEntries vslots)
      | .mk .arrow _ _ => S "slots" [] (S "p" ["default"] [e] :: vslotsEntries vslots)
      | .mk .object _ [.mk .list _ props] => S "slots" [] (slotsEntries props ++ vslotsEntries vslots)
      | .mk .ident _ _ => if c.o.enableObjectSlots then S "slotcond" [] [e, wrapped] else wrapped
      | .mk .call ("usr" :: _) _ => if c.o.enableObjectSlots then S "slotcond" [] [e, wrapped] else wrapped
      | _ => wrapped
  | _ => if isComp then wrapped else S "kids" [] items

/-- local rule of `denote` -/
def denoteRule (c : DCtx) (n : Node) : Node :=
  match n with
  | .mk .jsxElement _ [.mk .jsxOpening _ [nameN, .mk .list _ attrs0, _], .mk .list _ children, _] =>
    let attrs := expandVModels attrs0
    let isComp := denoteIsComponent c nameN
    let acc := attrs.foldl (denoteAttr c isComp nameN attrs) {}
    let tagN := match nameN with
      | .mk .jsxNsName _ [a, b] => nStr (identName a ++ ":" ++ identName b)      -- a namespaced tag is its qualified name
      | t => t
    let nModels := (attrs0.filter fun a => match a with | .mk .jsxAttr _ [.mk .ident ("v-models" :: _) _, _] => true | _ => false).length
    let feats := acc.feats ++ (if c.o.mergeProps && hasDroppedDup acc.ops then ["dropped-duplicate"] else [])
      ++ (if nModels > 1 then ["ood-directive-value"] else [])
    S "vnode" ((if isComp then "component" else "element") :: feats)
      [denoteTag c tagN, denoteProps c acc, denoteKids c isComp children acc.vslots, S "dirs" [] acc.dirs, S "hints" [] []]
  | .mk .jsxFragment _ [_, .mk .list _ children, _] =>
    S "vnode" ["element"] [S "Fragment" [] [], S "props" [] [], denoteKids c false children none, S "dirs" [] [], S "hints" [] []]
  | .mk .jsxMember as ks => memberOfJsx (.mk .jsxMember as ks)
  | n => n

def denote (o : Opts) (env : Env) (inp : Node) : Node := post (denoteRule { o := o, env := env }) inp

end VueJsx
