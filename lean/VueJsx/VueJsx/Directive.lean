/-
  Directive: model of visitor/src/directive.rs (`is_directive`, `parse_directive` and its helpers).
-/
import VueJsx.Base

namespace VueJsx
open Text

/-- parsed form of a directive attribute (Rust `enum Directive`) -/
inductive Dir where
  | normal (name : String) (argument modifiers : Option Node) (value : Node)
  | text (e : Node)
  | html (e : Node)
  | vmodel (argument transformedArgument modifiers : Option Node) (value : Node)
  | slots (e : Option Node)
  deriving Repr, Inhabited

/-- name node of a `jsxAttr`: plain name or `ns:name` -/
inductive AttrName where
  | plain (s : String)
  | ns (ns name : String)
  | bad
  deriving Repr, Inhabited, DecidableEq

def attrNameOf : Node → AttrName
  | .mk .ident (s :: _) _ => .plain s
  | .mk .jsxNsName _ [nsN, nameN] => .ns (identName nsN) (identName nameN)
  | _ => .bad

/-- `is_directive(jsx_attr)` -/
def isDirectiveAttrName (a : AttrName) : Bool :=
  match a with
  | .plain s => isDirectiveName s.toList
  | .ns ns _ => isDirectiveName ns.toList
  | .bad => false

/-- sorted, duplicate-free insertion (`BTreeSet<Atom>`; `Atom` orders as its string) -/
def setInsert (x : String) : List String → List String
  | [] => [x]
  | y :: ys => if x < y then x :: y :: ys else if x == y then y :: ys else y :: setInsert x ys

def setOfList (xs : List String) : List String := xs.foldl (fun acc x => setInsert x acc) []

/-- element `i` of an array literal's element list if it is a plain (non-spread, non-hole) element -/
def plainElem (elems : List Node) (i : Nat) : Option Node :=
  match elems[i]? with
  | some (.mk .arg _ [e]) => some e
  | _ => none

def arrayElems : Node → Option (List Node)
  | .mk .array _ [.mk .list _ elems] => some elems
  | _ => none

/-- `parse_modifiers`: the string literals among the plain elements -/
def parseModifiers (elems : List Node) : List String :=
  setOfList (elems.filterMap fun e =>
    match e with
    | .mk .arg _ [.mk .str (s :: _) _] => some s
    | _ => none)

/-- `swc_ecma_utils::is_valid_prop_ident` on ASCII text (non-ASCII characters are taken as identifier characters) -/
def isValidPropIdent (s : String) : Bool :=
  let start (c : Char) : Bool := c.isAlpha || c == '_' || c == '$' || c.toNat ≥ 128
  let cont (c : Char) : Bool := c.isAlphanum || c == '_' || c == '$' || c.toNat ≥ 128
  match s.toList with
  | [] => false
  | c :: cs => start c && cs.all cont

/-- words `Ident::verify_symbol` rejects: reserved words, words reserved in strict mode / module code, `eval` and `arguments` -/
def reservedWords : List String :=
  ["break", "case", "catch", "class", "const", "continue", "debugger", "default", "delete", "do", "else", "enum", "export", "extends",
   "false", "finally", "for", "function", "if", "import", "in", "instanceof", "new", "null", "package", "return", "super", "switch", "this",
   "throw", "true", "try", "typeof", "var", "void", "while", "with",
   "implements", "interface", "let", "private", "protected", "public", "static", "yield", "await", "eval", "arguments"]

/-- identifier start / continue characters; non-ASCII characters are taken as identifier characters (the code asks the Unicode
    ID_Start / ID_Continue tables, which are not modelled) -/
def isPragmaStart (c : Char) : Bool := c == '$' || c == '_' || isAsciiLower c || isAsciiUpper c || c.toNat ≥ 128
def isPragmaCont (c : Char) : Bool := isPragmaStart c || ('0' ≤ c && c ≤ '9')

/-- `Ident::verify_symbol(s).is_ok()` -/
def isValidSymbol (s : String) : Bool :=
  !reservedWords.contains s &&
    (match s.toList with
     | [] => false
     | c :: cs => isPragmaStart c && cs.all isPragmaCont)

/-- an identifier name (reserved words included): what may follow a dot -/
def isIdentifierName (s : String) : Bool :=
  match s.toList with
  | [] => false
  | c :: cs => isPragmaStart c && cs.all isPragmaCont

/-- `util::is_valid_pragma`: an identifier or a member chain - the object a binding identifier or `this`, the properties
    identifier names -/
def isValidPragma (p : String) : Bool :=
  match (splitOn '.' p.toList).map String.ofList with
  | [] => false
  | object :: props => (object == "this" || isValidSymbol object) && props.all isIdentifierName

/-- `is_assignment_target`: can the expression stand on the left of `=`? (TypeScript's type-only wrappers don't matter) -/
def isAssignmentTarget : Node → Bool
  -- modules are strict code: `eval = ...` and `arguments = ...` are syntax errors
  | .mk .ident as _ => as.head? != some "eval" && as.head? != some "arguments"
  | .mk .member _ _ => true
  | .mk (.other "SuperPropExpression") _ _ => true
  | .mk .paren _ [e] => isAssignmentTarget e
  | .mk (.other "TsAsExpression") _ [e, _] => isAssignmentTarget e
  | .mk (.other "TsNonNullExpression") _ [e] => isAssignmentTarget e
  | .mk (.other "TsSatisfiesExpression") _ [e, _] => isAssignmentTarget e
  | .mk (.other "TsTypeAssertion") _ [e, _] => isAssignmentTarget e
  | _ => false

/-- `transform_modifiers` -/
def transformModifiers (mods : List String) (quoteProp : Bool) : Option Node :=
  if mods.isEmpty then none
  else some (nObject (mods.map fun m =>
    nKV (if quoteProp || !isValidPropIdent m then nStr m else nIdentName m) (nBool true)))

/-- the expression inside `{…}` of an attribute value, if it is a non-empty expression container -/
def containerExpr : Node → Option Node
  | .mk .jsxExprContainer _ [e] =>
    match e with
    | .mk .jsxEmpty _ _ => none
    | e => some e
  | _ => none

/-- `lower_first_letter` -/
def lowerFirst (s : List Char) : List Char :=
  match s with
  | [] => []
  | c :: cs => asciiLower c :: cs

/-- name / argument / remaining `_` pieces of a directive attribute name -/
def dirNameParts (a : AttrName) : String × Option String × List String :=
  match a with
  | .plain s =>
    let body := dropLeading '-' (dropLeading 'v' s.toList)
    match splitOn '_' body with
    | [] => (String.ofList (lowerFirst s.toList), none, [])   -- unreachable: splitOn is non-empty
    | n :: rest => (String.ofList (lowerFirst n), none, rest.map String.ofList)
  | .ns ns name =>
    let d := String.ofList (lowerFirst (dropLeading '-' (dropLeading 'v' ns.toList)))
    match splitOn '_' name.toList with
    | [] => (d, some name, [])
    | a :: rest => (d, some (String.ofList a), rest.map String.ofList)
  | .bad => ("", none, [])

def vHtmlOrText (what : String) (value : Node) (st : St) : Node × St :=
  let bad := (nBool true, st.err ("Error: You have to use JSX Expression inside your `v-" ++ what ++ "`."))
  match value with
  | .mk .str as ks => (.mk .str as ks, st)
  | v =>
    match containerExpr v with
    | some e =>
      match arrayElems e with
      | some elems =>
        match plainElem elems 0 with
        | some first => (first, st)
        | none => (e, st)
      | none => (e, st)
    | none => bad        -- no value, `{}`, or an element / fragment as the value

def parseVModel (value : Node) (isComponent : Bool) (argument : Option Node) (rest : List String)
    (st : St) : Dir × St :=
  let (attrValue, st) :=
    match containerExpr value with
    | some e => (e, st)
    | none => (nEmptyIdent, st.err "Error: You have to use JSX Expression inside your `v-model`.")
  let nullArg (a : Option Node) : Option Node :=
    if isComponent && a.isNone then some nNull else a
  let (st, value, argument, modifiers) : St × Node × Option Node × Option (List String) :=
    match arrayElems attrValue with
    | some elems =>
      let (v, st) : Node × St :=
        match plainElem elems 0 with
        | some v => (v, st)
        | none => (nEmptyIdent, st.err "Error: The first element of the `v-model` array must be the bound expression.")
      match plainElem elems 1 with
      | some second =>
        match arrayElems second with
        | some mods => (st, v, nullArg argument, some (parseModifiers mods))
        | none =>
          let argument := if argument.isNone then some second else argument
          match (plainElem elems 2).bind arrayElems with
          | some mods => (st, v, argument, some (parseModifiers mods))
          | none => (st, v, argument, some (setOfList rest))      -- no modifier list in the array: the `_mod` suffixes apply
      | none => (st, v, nullArg argument, some (setOfList rest))
    | none => (st, attrValue, argument, some (setOfList rest))
  -- the listener assigns to it
  let (value, st) : Node × St :=
    if isAssignmentTarget value then (value, st)
    else (nEmptyIdent, st.err "Error: The value of `v-model` must be an assignable expression (an identifier or a member expression).")
  let nonEmpty := match modifiers with | some m => !m.isEmpty | none => false
  let transformed :=
    if !isComponent && nonEmpty then (match argument with | some a => some a | none => some nVoid0)
    else argument
  (.vmodel argument transformed (modifiers.bind (transformModifiers · isComponent)) value, st)

def parseVSlots (value : Node) : Dir :=
  -- any expression is a slots object (an object literal's entries are inlined later, everything else is spread)
  .slots (containerExpr value)

/-- `parse_directive(jsx_attr, is_component)`; `name`/`value` are the attribute's name and value nodes -/
def parseDirective (name : AttrName) (value : Node) (isComponent : Bool) (st : St) : Dir × St :=
  let (dname, argS, rest) := dirNameParts name
  let argument : Option Node := argS.map nStr
  if dname == "html" then
    let (e, st) := vHtmlOrText "html" value st
    (.html e, st)
  else if dname == "text" then
    let (e, st) := vHtmlOrText "text" value st
    (.text e, st)
  else if dname == "model" then parseVModel value isComponent argument rest st
  else if dname == "slots" then (parseVSlots value, st)
  else
    let (v, argument, modifiers) : Node × Option Node × Option (List String) :=
      match containerExpr value with
      | some e =>
        match arrayElems e with
        | some elems =>
          let v := (plainElem elems 0).getD nVoid0
          match plainElem elems 1 with
          | some second =>
            match arrayElems second with
            | some mods => (v, argument, some (parseModifiers mods))
            | none =>
              let argument := if argument.isNone then some second else argument
              match (plainElem elems 2).bind arrayElems with
              | some mods => (v, argument, some (parseModifiers mods))
              | none => (v, argument, some (setOfList rest))      -- no modifier list in the array: the `_mod` suffixes apply
          | none => (v, argument, some (setOfList rest))
        | none => (e, argument, some (setOfList rest))
      | none =>
        match value with
        | .mk .str as ks => (.mk .str as ks, argument, some (setOfList rest))     -- `v-foo="bar"`
        | _ => (nVoid0, argument, some (setOfList rest))                          -- no value: `undefined`
    let nonEmpty := match modifiers with | some m => !m.isEmpty | none => false
    let argument :=
      if nonEmpty then (match argument with | some a => some a | none => some nVoid0) else argument
    (.normal dname argument (modifiers.bind (transformModifiers · false)) v, st)

end VueJsx
