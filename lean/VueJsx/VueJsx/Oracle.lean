/-
  Oracle: executable forms of the properties, evaluated on the IMPLEMENTATION's output (α of what the real
  visitor returned), never on the model's.  They are written from the property statements and use the spec-level
  definitions (Text, Sem), not the transform model.
-/
import VueJsx.Base
import VueJsx.Canon
import VueJsx.Attrs

namespace VueJsx
open Text

inductive Verdict where
  | ok
  | skip (reason : String)            -- input outside the property's quantifier
  | fail (key : String) (detail : String)   -- `key` names the violated clause (matched against known_findings.txt)
  deriving Repr, Inhabited

def Verdict.render : Verdict → String
  | .ok => "ok"
  | .skip r => "skip:" ++ r
  | .fail k d => "FAIL:" ++ k ++ ":" ++ (encodeAtom d).drop 1

mutual
/-- all subtrees satisfying `p`, in pre-order -/
def collect (p : Node → Bool) : Node → List Node
  | .mk k as ks => (if p (.mk k as ks) then [.mk k as ks] else []) ++ collectL p ks
def collectL (p : Node → Bool) : List Node → List Node
  | [] => []
  | x :: xs => collect p x ++ collectL p xs
end

def isKind (k : K) (n : Node) : Bool := n.kind == k

/-- a synthetic call whose callee is the generated identifier `name` (e.g. `_createTextVNode`) -/
def isGenCall (name : String) : Node → Bool
  | .mk .call ("syn" :: _) (.mk .ident (n :: b :: _) _ :: _) => n == name && isGenBind b
  | _ => false

def callArgs : Node → List Node
  | .mk .call _ [_, .mk .list _ args, _] => args
  | _ => []

def argExpr : Node → Node
  | .mk .arg _ [e] => e
  | .mk .spreadArg _ [e] => e
  | n => n

def strValue : Node → Option String
  | .mk .str (s :: _) _ => some s
  | _ => none

def sortStrings (xs : List String) : List String := (xs.toArray.qsort (· < ·)).toList

/-! ### shared domain guard: a non-mergeable attribute name written twice on one element

  With `mergeProps` on, the visitor (like the Babel plugin) keeps the FIRST occurrence and silently drops the
  later ones, which are then never evaluated.  The properties' quantifiers range over repeated
  class/style/listener attributes only, so such inputs are outside the domain (they are neither findings nor
  violations; see DESIGN.md section 5). -/

def plainAttrNames (attrs : List Node) : List String :=
  attrs.filterMap fun a =>
    match a with
    | .mk .jsxAttr _ [nameN, _] =>
      let nm := attrNameOf nameN
      if isDirectiveAttrName nm then none else
      match nm with
      | .plain s => some s
      | .ns a b => some (a ++ ":" ++ b)
      | .bad => none
    | _ => none

def hasDupNonMergeable (names : List String) : Bool :=
  match names with
  | [] => false
  | n :: rest => (rest.contains n && !isMergeKey n) || hasDupNonMergeable rest

/-- some element of the tree repeats a non-mergeable attribute name -/
def anyDroppedDuplicate (n : Node) : Bool :=
  (collect (isKind .jsxOpening) n).any fun op =>
    match op with
    | .mk .jsxOpening _ [_, .mk .list _ attrs, _] => hasDupNonMergeable (plainAttrNames attrs)
    | _ => false

/-! ### C02 (text part): cleaned JSX text reaches `createTextVNode` -/

def cleanS (s : String) : String := String.ofList (cleanText s.toList)

def oracleC02 (o : Opts) (inN outN : Node) : Verdict :=
  if o.mergeProps && anyDroppedDuplicate inN then .skip "repeated-non-mergeable-attribute" else
  let inTexts := (collect (isKind .jsxText) inN).filterMap fun n => n.atoms.head?
  let expected := sortStrings ((inTexts.map cleanS).filter (· != ""))
  let outCalls := collect (isGenCall "_createTextVNode") outN
  let actualCalls := outCalls.filterMap fun c => (callArgs c).head?.bind (fun a => strValue (argExpr a))
  let leftover := ((collect (isKind .jsxText) outN).filterMap fun n => n.atoms.head?).map cleanS |>.filter (· != "")
  let actual := sortStrings (actualCalls ++ leftover)
  if expected == actual then .ok
  else .fail "text-cleaning" s!"expected {expected} got {actual}"

end VueJsx
