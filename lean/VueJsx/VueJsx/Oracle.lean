/-
  Oracle: executable forms of the properties, evaluated on the IMPLEMENTATION's output (α of what the real
  visitor returned), never on the model's.  They are written from the property statements and use the spec-level
  definitions (Text, Sem), not the transform model.
-/
import VueJsx.Base
import VueJsx.Canon
import VueJsx.Attrs
import VueJsx.Sem
import VueJsx.TypeSpec

namespace VueJsx
open Text

inductive Verdict where
  | ok
  | skip (reason : String)            -- input outside the property's quantifier
  | fail (key : String) (detail : String)   -- `key` names the violated clause (matched against known_findings.txt)
  deriving Repr, Inhabited

def Verdict.render : Verdict → String
  | .ok => "ok"
  | .skip r => "skip:" ++ r
  | .fail k d => "FAIL:" ++ k ++ ":" ++ (encodeAtom d).drop 1

mutual
/-- all subtrees satisfying `p`, in pre-order -/
def collect (p : Node → Bool) : Node → List Node
  | .mk k as ks => (if p (.mk k as ks) then [.mk k as ks] else []) ++ collectL p ks
def collectL (p : Node → Bool) : List Node → List Node
  | [] => []
  | x :: xs => collect p x ++ collectL p xs
end

def isKind (k : K) (n : Node) : Bool := n.kind == k

/-- a synthetic call whose callee is the generated identifier `name` (e.g. `_createTextVNode`) -/
def isGenCall (name : String) : Node → Bool
  | .mk .call ("syn" :: _) (.mk .ident (n :: b :: _) _ :: _) => n == name && isGenBind b
  | _ => false

def callArgs : Node → List Node
  | .mk .call _ [_, .mk .list _ args, _] => args
  | _ => []

def argExpr : Node → Node
  | .mk .arg _ [e] => e
  | .mk .spreadArg _ [e] => e
  | n => n

def strValue : Node → Option String
  | .mk .str (s :: _) _ => some s
  | _ => none

def sortStrings (xs : List String) : List String := (xs.toArray.qsort (· < ·)).toList

/-! ### shared domain guard: a non-mergeable attribute name written twice on one element

  With `mergeProps` on, the visitor (like the Babel plugin) keeps the FIRST occurrence and silently drops the
  later ones, which are then never evaluated.  The properties' quantifiers range over repeated
  class/style/listener attributes only, so such inputs are outside the domain (they are neither findings nor
  violations; see DESIGN.md section 5). -/

def plainAttrNames (attrs : List Node) : List String :=
  attrs.filterMap fun a =>
    match a with
    | .mk .jsxAttr _ [nameN, _] =>
      let nm := attrNameOf nameN
      if isDirectiveAttrName nm then none else
      match nm with
      | .plain s => some s
      | .ns a b => some (a ++ ":" ++ b)
      | .bad => none
    | _ => none

def hasDupNonMergeable (names : List String) : Bool :=
  match names with
  | [] => false
  | n :: rest => (rest.contains n && !isConcatKey n) || hasDupNonMergeable rest

/-- some element of the tree repeats a non-mergeable attribute name -/
def anyDroppedDuplicate (n : Node) : Bool :=
  (collect (isKind .jsxOpening) n).any fun op =>
    match op with
    | .mk .jsxOpening _ [_, .mk .list _ attrs, _] => hasDupNonMergeable (plainAttrNames attrs)
    | _ => false

/-! ### C02 (text part): cleaned JSX text reaches `createTextVNode` -/

def cleanS (s : String) : String := String.ofList (cleanText s.toList)

def oracleC02 (o : Opts) (inN outN : Node) : Verdict :=
  if o.mergeProps && anyDroppedDuplicate inN then .skip "repeated-non-mergeable-attribute" else
  let inTexts := (collect (isKind .jsxText) inN).filterMap fun n => n.atoms.head?
  let expected := sortStrings ((inTexts.map cleanS).filter (· != ""))
  let outCalls := collect (isGenCall "_createTextVNode") outN
  let actualCalls := outCalls.filterMap fun c => (callArgs c).head?.bind (fun a => strValue (argExpr a))
  let leftover := ((collect (isKind .jsxText) outN).filterMap fun n => n.atoms.head?).map cleanS |>.filter (· != "")
  let actual := sortStrings (actualCalls ++ leftover)
  if expected == actual then .ok
  else .fail "text-cleaning" s!"expected {expected} got {actual}"

end VueJsx

/-! ### semantic oracles (C01–C05): `denote input` vs `evalOut (implementation output)` -/
namespace VueJsx

/-- nested vnodes replaced by a placeholder: each vnode is judged on its own -/
def shallowRule (n : Node) : Node :=
  match n with
  | .mk (.other "vnode") _ _ => S "vnode" [] []
  | n => n

def shallow (n : Node) : Node :=
  match n with
  | .mk k as ks => .mk k as (postL shallowRule ks)

structure VPair where
  d : Node   -- denoted vnode
  e : Node   -- evaluated vnode
  deriving Inhabited

/- simultaneous walk; pairs up vnodes sitting at the same position of two trees of the same shape;
   also returns whether the shapes agreed everywhere outside vnodes -/
mutual
/-- outermost vnodes of a tree, in pre-order -/
partial def outerVnodes (n : Node) : List Node :=
  match n with
  | .mk (.other "vnode") _ _ => [n]
  | .mk _ _ ks => ks.flatMap outerVnodes
end

mutual
partial def pairVnodes (d e : Node) : List VPair × Bool :=
  match d, e with
  | .mk (.other "vnode") das dk, .mk (.other "vnode") _ ek =>
    -- inside a vnode, component mismatches are judged per component
    if das.contains "dropped-duplicate" then
      -- a repeated non-mergeable attribute was dropped with whatever JSX its value held (outside the quantifier): the
      -- vnodes nested in the props of the two sides do not correspond position by position and are not paired
      let propsPairs : List VPair := []
      let (p0, _) := pairLists (dk.take 1) (ek.take 1)
      let (p2, _) := pairLists (dk.drop 2) (ek.drop 2)
      ({ d := d, e := e } :: (p0 ++ propsPairs ++ p2), true)
    else
    let (ps, _) := pairLists dk ek
    ({ d := d, e := e } :: ps, true)
  | .mk k1 a1 c1, .mk k2 a2 c2 =>
    if k1 != k2 || a1 != a2 || c1.length != c2.length then (pairByOrder d e, false)
    else pairLists c1 c2
partial def pairLists (xs ys : List Node) : List VPair × Bool :=
  match xs, ys with
  | x :: xs, y :: ys =>
    let (p1, b1) := pairVnodes x y
    let (p2, b2) := pairLists xs ys
    (p1 ++ p2, b1 && b2)
  | _, _ => ([], true)
/-- shapes differ (e.g. children delivered as a slots thunk instead of an array): pair the outermost vnodes by order -/
partial def pairByOrder (d e : Node) : List VPair :=
  let dv := outerVnodes d
  let ev := outerVnodes e
  if dv.length != ev.length then []
  else (dv.zip ev).flatMap fun p => (pairVnodes p.1 p.2).1
end

def vTag (v : Node) : Node := (v.kids[0]?).getD nNone
def vProps (v : Node) : Node := (v.kids[1]?).getD nNone
def vKids (v : Node) : Node := (v.kids[2]?).getD nNone
def vDirs (v : Node) : Node := (v.kids[3]?).getD nNone
def vHints (v : Node) : Node := (v.kids[4]?).getD nNone
def vIsComponent (v : Node) : Bool := v.atoms.head? == some "component"

def countVnodes (n : Node) : Nat := (collect (fun x => x.kind == .other "vnode") n).length

/-- the vnodes reached without passing through the PROPS of another vnode (top level, children, slots): a vnode inside
    a prop value can legitimately vanish from one normal form (a later entry with the same key overwrites it) -/
partial def structuralVnodes (n : Node) : List Node :=
  match n with
  | .mk (.other "vnode") _ ks => n :: ((ks.drop 2).take 1).flatMap structuralVnodes
  | .mk _ _ ks => ks.flatMap structuralVnodes

def hasOod (n : Node) : Bool := !(collect (fun x => x.kind == .other "ood") n).isEmpty

/-- does the input contain an element/fragment directly as an attribute value (`a=<b/>`)?  (C07's territory) -/
def hasJsxAttrValue (inN : Node) : Bool :=
  (collect (isKind .jsxAttr) inN).any fun a =>
    match a with
    | .mk .jsxAttr _ [_, .mk .jsxElement _ _] => true
    | .mk .jsxAttr _ [_, .mk .jsxFragment _ _] => true
    | _ => false

structure SemView where
  pairs : List VPair
  shapeOk : Bool
  dCount : Nat
  /-- structural vnodes of the denotation that were paired with nothing -/
  unpaired : Nat
  /-- some denoted element drops a repeated attribute (whose value, possibly JSX, is then never lowered) -/
  anyDropped : Bool
  deriving Inhabited

def semView (o : Opts) (env : Env) (pragma : Option String) (inN outN : Node) : SemView :=
  let d := denote o env inN
  let e := evalOut pragma outN
  let (ps, ok) := pairVnodes d e
  { pairs := ps, shapeOk := ok, dCount := countVnodes d,
    unpaired := ((structuralVnodes d).filter fun v => !ps.any (fun p => p.d == v)).length,
    anyDropped := (collect (fun x => x.kind == .other "vnode" && x.atoms.contains "dropped-duplicate") d).length != 0 }

def showN (n : Node) : String :=
  let s := printNode n
  if s.length > 400 then (s.take 400).toString ++ "…" else s

/-- generic judge: every paired vnode must agree on the selected component -/
def judge (sv : SemView) (sel : Node → Node) (filter : VPair → Bool) (classify : VPair → String) : Verdict :=
  match (sv.pairs.filter filter).find? (fun p => !(shallow (sel p.d) == shallow (sel p.e))) with
  | some p => .fail (classify p) s!"denoted {showN (shallow (sel p.d))} evaluated {showN (shallow (sel p.e))}"
  | none =>
    if sv.unpaired != 0 && !sv.anyDropped then
      .fail "unpaired-vnode" s!"{sv.unpaired} of {sv.dCount} JSX elements have no vnode at their position"
    else .ok

end VueJsx

namespace VueJsx

/-- the lines of a comment (every JavaScript line terminator ends a line) -/
def commentLines (c : List Char) : List (List Char) :=
  let (cur, done) := c.foldl (fun (acc : List Char × List (List Char)) ch =>
    if ch == '\n' || ch == '\r' || ch == '\u2028' || ch == '\u2029' then ([], acc.2 ++ [acc.1]) else (acc.1 ++ [ch], acc.2)) ([], [])
  done ++ [cur]

/-- C15: the `@jsx <name>` annotation of a comment — on ANY line of it (the usual JSDoc layout puts it on a line of its own,
    after ` * `); the first such line counts -/
def specPragmaOfComment (c : List Char) : Option (List Char) :=
  (commentLines c).findSome? Text.pragmaOfComment

/-- C15: what can be called as a factory "by exactly that identifier": an identifier, or a member chain `a.b.c` - whose FIRST part is
    an identifier (not a reserved word) or `this`, and whose further parts are property names (any identifier name, reserved words
    such as `default` included) -/
def specValidPragma (p : String) : Bool :=
  let isName (s : String) : Bool :=
    match s.toList with
    | [] => false
    | c :: cs => isPragmaStart c && cs.all isPragmaCont
  match (Text.splitOn '.' p.toList).map String.ofList with
  | [] => false
  | first :: rest => (isName first && (!reservedWords.contains first || first == "this")) && rest.all isName

def effectivePragma (o : Opts) (env : Env) : Option String :=
  let fromComments := env.comments.foldl (fun (acc : Option String) cs =>
    match cs.findSome? (fun c => (specPragmaOfComment c.toList).map String.ofList) with
    | some p => some p
    | none => acc) none
  -- a name that is not an identifier (or identifiers joined by dots) names no factory: the statement speaks of "that identifier";
  -- C07 demands that such a pragma is REPORTED (and Vue's createVNode is what remains)
  let chosen := match fromComments with
    | some p => some p
    | none => o.pragma
  match chosen with
  | some p => if specValidPragma p then some p else none
  | none => none

def hasModelAttr (v : Node) : Bool := v.atoms.contains "model"

/-- input features of the denoted element that name a recorded region (see known_findings.txt) -/
def featKey (base : String) (p : VPair) (feats : List String) : String :=
  match feats.find? (fun f => p.d.atoms.contains f) with
  | some f => base ++ "/" ++ f
  | none => base

def inDom (p : VPair) : Bool := !p.d.atoms.contains "dropped-duplicate" && !p.d.atoms.contains "ood-directive-value"

/-- the name of the sole identifier child in a denoted children value (`slotcond x ..` or a wrapped default slot `[x]`) -/
def soleIdentChildName (k : Node) : Option String :=
  match k with
  | .mk (.other "slotcond") _ (.mk .ident (n :: _) _ :: _) => some n
  | .mk (.other "slots") _ (.mk (.other "p") ["default"] [.mk .arrow _ (_ :: .mk .array _ [.mk .list _ [.mk .arg _ [.mk .ident (n :: _) _]]] :: _)] :: _) => some n
  | _ => none

/-- the semantic oracles of C01–C05, on the implementation's output -/
def oracleSem (prop : String) (o : Opts) (env : Env) (inN outN : Node) : Verdict :=
  if o.resolveType then .skip "resolveType" else
  let sv := semView o env (effectivePragma o env) inN outN
  if prop == "C01" then
    -- elements carrying v-model are judged by C05
    judge sv (fun v => S "tp" [] [vTag v, vProps v]) (fun p => inDom p && !p.d.atoms.contains "has-vmodel")
      (fun p => if !(shallow (vTag p.d) == shallow (vTag p.e)) then "tag" else "props")
  else if prop == "C02" then
    judge sv vKids (fun p => !vIsComponent p.d && !hasOod (vKids p.d)) (fun _ => "children")
  else if prop == "C03" then
    judge sv vKids (fun p => vIsComponent p.d)
      (fun p =>
        -- the recorded finding is exactly: the sole IDENTIFIER child `a` is replaced by the captured copy `_a`;
        -- a captured copy of anything else (e.g. of a generated temporary that shares a user variable's name) is not it
        let caps := (collect (fun x => x.kind == .other "captured") (vKids p.e)).map (fun x => x.atoms.headD "")
        match soleIdentChildName (vKids p.d) with
        | some n => if !caps.isEmpty && caps.all (· == "_" ++ n) then "slots/captured-temporary" else "slots"
        | none => "slots")
  else if prop == "C04" then
    match judge sv vDirs inDom (fun _ => "directives") with
    | .ok =>
      -- v-html / v-text set innerHTML / textContent to the given value: the props of the elements that carry them
      judge sv vProps (fun p => inDom p && p.d.atoms.contains "has-vhtml-vtext" && !p.d.atoms.contains "has-vmodel")
        (fun _ => "innerHTML-textContent")
    | v => v
  else if prop == "C05" then
    judge sv (fun v => S "pd" [] [vProps v, vDirs v]) (fun p => inDom p && p.d.atoms.contains "has-vmodel")
      (fun p => featKey "v-model" p ["vmodel-computed-arg", "vmodel-arg-on-element"])
  else .skip "no-oracle"

end VueJsx

/-! ### pair oracles: two runs of the implementation on related inputs -/
namespace VueJsx

def oraclePair0 (mode : String) (o : Opts) (env : Env) (a b : Node) : Verdict :=
  let x := if mode == "c12" then canon (eraseHints (effectivePragma o env) a) else canon a
  let y := canon b
  match firstDiff x y [] with
  | none => .ok
  | some (path, p, q) => .fail mode s!"at {path}: {showN p} vs {showN q}"

end VueJsx

/-! ### C13: patch flags and dynamic-prop lists are sound hints (clauses of the statement, on the real output) -/
namespace VueJsx

/-- a value that cannot differ between renders: a closed literal -/
partial def specConst (v : Node) : Bool :=
  match v with
  | .mk .str _ _ => true
  | .mk .num _ _ => true
  | .mk .bool _ _ => true
  | .mk .null _ _ => true
  | .mk .bigint _ _ => true
  | .mk .regex _ _ => true
  | .mk .ident ("undefined" :: b :: _) _ => b == "u"        -- the GLOBAL `undefined`; a local binding of that name can be anything
  | .mk (.other "cat") _ parts => parts.all specConst
  | .mk .array _ [.mk .list _ elems] => elems.all fun e => match e with | .mk .arg _ [x] => specConst x | _ => false
  | .mk .object _ [.mk .list _ props] => props.all fun p =>
      match p with
      | .mk .kv _ [.mk .computed _ _, _] => false
      | .mk .kv _ [_, x] => specConst x
      | .mk .ident ("undefined" :: b :: _) _ => b == "u"
      | _ => false
  | _ => false

structure PropsFacts where
  entries : List (String × Node) := []     -- statically keyed entries
  hasOpaque : Bool := false                -- spread / merged helper object / computed key
  deriving Inhabited

def propsFacts (props : Node) : PropsFacts :=
  props.kids.foldl (fun (acc : PropsFacts) item =>
    match item with
    | .mk (.other "seg") _ es =>
      es.foldl (fun (acc : PropsFacts) e =>
        match e with
        | .mk (.other "p") [k] [v] => { acc with entries := acc.entries ++ [(k, v)] }
        | _ => { acc with hasOpaque := true }) acc
    | .mk _ _ [.mk .object _ [.mk .list _ props]] =>
      -- a layer that is an object literal with spreads/computed keys inside: its static keys are still present
      props.foldl (fun (acc : PropsFacts) p =>
        match p with
        | .mk .kv _ [k, v] => (match k with
            | .mk .computed _ _ => acc
            | k => (match staticKeyOf k with | some s => { acc with entries := acc.entries ++ [(s, v)] } | none => acc))
        | _ => acc) { acc with hasOpaque := true }
    | _ => { acc with hasOpaque := true }) {}

def natOfAtom (s : String) : Option Nat := s.toNat?

def hasBit (flags bit : Nat) : Bool := (flags / bit) % 2 == 1

/-- child items of a denoted/evaluated KIDS component -/
def kidItems (k : Node) : List Node :=
  let fromSlots (entries : List Node) : List Node :=
    match entries.find? (fun e => match e with | .mk (.other "p") ["default"] _ => true | _ => false) with
    | some (.mk _ _ [.mk .arrow _ [_, .mk .array _ [.mk .list _ items], _, _]]) => items
    | _ => []
  match k with
  | .mk (.other "kids") _ items => items
  | .mk (.other "slots") _ entries => fromSlots entries
  | .mk (.other "slotcond") _ [_, .mk (.other "slots") _ entries] => fromSlots entries
  | _ => []

/-- a direct child of this element's slot — or of a slot reached from it by direct JSX nesting — is an identifier
    bound in the file -/
partial def hasBoundIdentChild (d : Node) : Bool :=
  (kidItems (vKids d)).any fun it =>
    match it with
    | .mk .arg _ [.mk .ident (_ :: b :: _) _] => b.toList.head? == some 'b'
    | .mk .spreadArg _ [.mk .ident (_ :: b :: _) _] => b.toList.head? == some 'b'
    | .mk .arg _ [.mk (.other "vnode") as ks] => as.contains "direct" && hasBoundIdentChild (.mk (.other "vnode") as ks)
    | _ => false

def c13Pair (o : Opts) (p : VPair) : Option (String × String) :=
  let hints := (vHints p.e).kids            -- arguments 4.. of the vnode call, then the slot-object hint (or `none`)
  let slotH : Option Node := match hints.reverse with | h :: _ => (if isNone h then none else some h) | [] => none
  let hintArgs := hints.dropLast
  let flagsN := hintArgs.find? (fun h => h.kind == K.num)
  let dynN := hintArgs.find? (fun h => h.kind == K.array)
  let flags : Option Nat := flagsN.bind (fun n => n.atoms.head?.bind natOfAtom)
  let dyn : List String := match dynN with
    | some (.mk .array _ [.mk .list _ es]) => es.filterMap fun e => match e with | .mk .arg _ [.mk .str (s :: _) _] => some s | _ => none
    | _ => []
  let facts := propsFacts (vProps p.e)      -- the hints are about the props the call actually passes
  let isElem := !vIsComponent p.d
  let fail (k d : String) : Option (String × String) := some (k, d)
  if !o.optimize && (flagsN.isSome || dynN.isSome || slotH.isSome) then fail "hints-without-optimize" "hint emitted although optimize is off" else
  match flagsN, flags with
  | some n, none => fail "flag-not-a-natural-number" (showN n)
  | _, _ =>
  let allowed := [2, 4, 8, 16, 32, 512]
  let f := flags.getD 0
  if flags.isSome && (f == 0 || f ≥ 1024 || (f - (allowed.filter (hasBit f)).foldl (· + ·) 0) != 0) then
    fail "flag-bits" s!"flag {f} is not a union of the element-level bits"
  else if dynN.isSome && dyn.any (fun k => !(facts.entries.any (·.1 == k))) then
    fail "dynamic-prop-not-present" s!"dynamic props {dyn} name a prop that is not present"
  else if flags.isSome && !hasBit f 16 && facts.hasOpaque then
    fail "spread-without-full-props" s!"flag {f} on props with a spread, merged helper object or computed key"
  else if flags.isSome && !hasBit f 16 then
    match facts.entries.find? (fun e =>
      !specConst e.2 && e.1 != "key" && e.1 != "ref" &&
        !(if isElem && e.1 == "class" then hasBit f 2
          else if isElem && e.1 == "style" then hasBit f 4
          else dyn.contains e.1 && hasBit f 8)) with
    | some e => fail (if e.1 == "on" then "uncovered-prop/on" else "uncovered-prop") s!"prop {e.1} can change between renders but flag {f} / dynamic props {dyn} do not cover it"
    | none =>
      if f == 32 && (facts.entries.any (·.1 == "ref") || !(vDirs p.d).kids.isEmpty) then
        fail "hydration-bit-alone" "ref or runtime directive with HYDRATE_EVENTS alone"
      else none
  else none
  |>.orElse fun _ =>
    match slotH with
    | none => none
    | some h =>
      match h.atoms.head?.bind natOfAtom with
      | some v =>
        if v != 1 && v != 2 then fail "slot-flag-range" s!"slot flag {v}"
        else if hasBoundIdentChild p.d && v != 2 then fail "slot-flag-stable-with-bound-child" s!"slot flag {v} although a direct child is an identifier bound in the file"
        else none
      | none => fail "slot-flag-range" (showN h)

def oracleC13 (o : Opts) (env : Env) (inN outN : Node) : Verdict :=
  if o.resolveType then .skip "resolveType" else
  let sv := semView o env (effectivePragma o env) inN outN
  match (sv.pairs.filter inDom).findSome? (c13Pair o) with
  | some (k, d) => .fail k d
  | none => .ok

end VueJsx

/-! ### C15: the vnode factory -/
namespace VueJsx

def oracleC15 (o : Opts) (env : Env) (inN outN : Node) : Verdict :=
  -- a repeated non-mergeable key (also one generated by v-model / v-html / v-text) drops an attribute with whatever JSX
  -- its value held: outside the quantifier
  let droppedSem := !(collect (fun x => x.kind == .other "vnode" && x.atoms.contains "dropped-duplicate") (denote o env inN)).isEmpty
  if o.mergeProps && (anyDroppedDuplicate inN || droppedSem) then .skip "repeated-non-mergeable-attribute" else
  let pragma := effectivePragma o env            -- from the SPEC-level comment scan (Text.pragmaOfComment) and the option
  let roles := rolesOfModule outN
  let isJsx (n : Node) : Bool := n.kind == .jsxElement || n.kind == .jsxFragment
  let expected := (collect isJsx inN).length - (collect isJsx outN).length
  let synCalls := collect (fun n => match n with | .mk .call ("syn" :: _) _ => true | _ => false) outN
  let calleeOf (c : Node) : Node := (c.kids.head?).getD nNone
  let items : List Node := match outN with
    | .mk .module _ (.mk .list _ items :: _) => items
    | _ => []
  let vueImports := items.filter fun (it : Node) =>
    match it with
    | .mk .importDecl _ (.mk .list _ specs :: .mk .str ("vue" :: _) _ :: _) =>
      !specs.isEmpty && specs.all fun (s : Node) => match s with | .mk .importSpec _ (.mk .ident (_ :: b :: _) _ :: _) => isGenBind b | _ => false
    | _ => false
  let createVNodeImports := (roles.filter (·.2 == "createVNode")).length
  match pragma with
  | some p =>
    let n := (synCalls.filter fun c => match calleeOf c with | .mk .ident (nm :: b :: _) _ => nm == p && b == "e" | _ => false).length
    if n != expected then .fail "pragma-callee" s!"{expected} elements/fragments lowered but {n} calls of the pragma identifier {p}"
    else if createVNodeImports != 0 then .fail "createVNode-imported-with-pragma" "createVNode is imported although a pragma names the factory"
    else .ok
  | none =>
    let n := (synCalls.filter fun c => roleOf roles none (calleeOf c) == some "createVNode").length
    if n != expected then .fail "createVNode-callee" s!"{expected} elements/fragments lowered but {n} calls of the imported createVNode"
    else if expected > 0 && createVNodeImports != 1 then .fail "createVNode-import-count" s!"createVNode imported {createVNodeImports} times"
    else if vueImports.length > 1 then .fail "vue-import-count" s!"{vueImports.length} generated imports from 'vue'"
    else .ok

end VueJsx

/-! ### C20: only Vue's defineComponent is augmented, and the user's options always win -/
namespace VueJsx

/-- the local bindings (name, binding class) that are Vue's defineComponent imported by name from 'vue' -/
def vueDefineLocals (inN : Node) : List (String × String) :=
  (collect (isKind .importDecl) inN).flatMap fun d =>
    match d with
    | .mk .importDecl _ (.mk .list _ specs :: .mk .str ("vue" :: _) _ :: _) =>
      specs.filterMap fun s =>
        match s with
        | .mk .importSpec _ [.mk .ident (ln :: b :: _) _, imp] =>
          let importedName := match imp with | .mk .ident (n :: _) _ => n | .mk .str (n :: _) _ => n | _ => ln
          if importedName == "defineComponent" then some (ln, b) else none
        | _ => none
    | _ => []

/-- binding classes of identifiers that are Vue's defineComponent imported by name from 'vue' -/
def vueDefineBinds (inN : Node) : List String :=
  (collect (isKind .importDecl) inN).flatMap fun d =>
    match d with
    | .mk .importDecl _ (.mk .list _ specs :: .mk .str ("vue" :: _) _ :: _) =>
      specs.filterMap fun s =>
        match s with
        | .mk .importSpec _ [.mk .ident (ln :: b :: _) _, imp] =>
          let importedName := match imp with | .mk .ident (n :: _) _ => n | .mk .str (n :: _) _ => n | _ => ln
          if importedName == "defineComponent" then some b else none
        | _ => none
    | _ => []

/-- a call with the user calls nested in it blanked out: "did THIS call change?" -/
partial def blankNestedCalls (n : Node) : Node :=
  match n with
  | .mk .call ("usr" :: _) _ => S "call" [] []
  | .mk k as ks => .mk k as (ks.map blankNestedCalls)

def shallowCallEq (ci co : Node) : Bool :=
  match ci, co with
  | .mk .call a1 k1, .mk .call a2 k2 => a1 == a2 && canon (nList (k1.map blankNestedCalls)) == canon (nList (k2.map blankNestedCalls))
  | _, _ => false

/- simultaneous walk of input and output: pairs every user-written call of the input with the call at the same
   position of the output (with the declared name when it initialises `const x = call`) -/
mutual
partial def pairCalls (i o : Node) (declName : Option String) : List (Option String × Node × Node) :=
  match i, o with
  | .mk .declarator _ [.mk .ident (nm :: _) ik, ii], .mk .declarator _ [_, oi] =>
    pairCallsL ik [] ++ pairCalls ii oi (some nm)
  | .mk .call ("usr" :: _) [ic, .mk .list _ iargs, _], .mk .call ("usr" :: _) [oc, .mk .list _ oargs, _] =>
    let head := [(declName, i, o)]
    let nested := pairCalls ic oc none ++
      (if iargs.length == oargs.length then pairCallsL iargs oargs
       else pairCallsL (iargs.take 1) (oargs.take 1) ++ pairCallsL (iargs.drop 2) (oargs.drop 2))
    head ++ nested
  | .mk k1 _ c1, .mk k2 _ c2 =>
    if k1 == k2 && c1.length == c2.length then pairCallsL c1 c2 else []
partial def pairCallsL (xs ys : List Node) : List (Option String × Node × Node) :=
  match xs, ys with
  | x :: xs, y :: ys => pairCalls x y none ++ pairCallsL xs ys
  | _, _ => []
end

/-- looks through parentheses and TypeScript assertions (`(e)`, `e as T`, `e as const`, `e satisfies T`, `e!`): same value -/
partial def unwrapTs (e : Node) : Node :=
  match e with
  | .mk .paren _ [x] => unwrapTs x
  | .mk (.other t) _ (x :: _) =>
    if ["TsAsExpression", "TsSatisfiesExpression", "TsNonNullExpression", "TsConstAssertion", "TsTypeAssertion"].contains t then unwrapTs x else e
  | e => e

/-- operations of an options object literal, spreads of object literals expanded -/
partial def flattenOptions (e0 : Node) : List PropOp :=
  let e := unwrapTs e0
  match e with
  | .mk .object _ [.mk .list _ props] =>
    props.flatMap fun p =>
      match p with
      | .mk .kv _ [.mk .computed _ [.mk .str (k :: _) _], v] => [.set k v]
      | .mk .kv _ [.mk .computed _ [.mk .tsTplLit _ [.mk .list _ [], .mk .list _ [.mk (.other "TemplateElement") (_ :: ck :: _) _]]], v] => [.set ck v]   -- [`name`]
      | .mk .kv _ [.mk .computed _ [k], v] => [.setC k v]
      | .mk .kv _ [k, v] => (match staticKeyOf k with | some s => [.set s v] | none => [.setC k v])
      | .mk .ident (n :: r) ks => [.set n (.mk .ident (n :: r) ks)]
      | .mk .methodProp _ (k :: _) => (match (match k with | .mk .computed _ [.mk .str (s :: _) _] => some s | k => staticKeyOf k) with
          | some s => [.set s p] | none => [.spreadPlain p])
      | .mk .getterProp _ (k :: _) => (match staticKeyOf k with | some s => [.set s p] | none => [.spreadPlain p])
      | .mk .spreadElement _ [x] =>
        (match unwrapTs x with
         | .mk .object oas oks => flattenOptions (.mk .object oas oks)
         | ux => [.spreadPlain ux])
      | o => [.spreadPlain o]
  | e => [.spreadPlain e]

def propOpEq (a b : PropOp) : Bool :=
  match a, b with
  | .set k v, .set k' v' => k == k' && canon v == canon v'
  | .setC k v, .setC k' v' => canon k == canon k' && canon v == canon v'
  | .spreadPlain e, .spreadPlain e' => canon e == canon e'
  | _, _ => false

/-- aligns the output options with the input options; returns the injected entries with the index they sit at and
    whether a user-written entry that can provide the same key precedes them -/
partial def alignOptions (outOps inOps : List PropOp) (userBefore : List PropOp) : Except String (List (String × Node × Bool)) :=
  match outOps, inOps with
  | [], [] => .ok []
  | [], _ :: _ => .error "a user-written option entry disappeared"
  | o :: os, ins =>
    match ins with
    | i :: is =>
      if propOpEq o i then alignOptions os is (userBefore ++ [i])
      else
        match o with
        | .set k v =>
          if ["props", "emits", "name"].contains k then
            let overridden := userBefore.any fun u => match u with
              | .set k' _ => k' == k
              | .spreadPlain _ => true
              | .setC _ _ => true          -- a key computed at run time may BE this option
              | _ => false
            (alignOptions os ins userBefore).map fun rest => (k, v, overridden) :: rest
          else .error s!"option entry {k} differs from the input"
        | _ => .error "an option entry differs from the input"
    | [] =>
      match o with
      | .set k v =>
        if ["props", "emits", "name"].contains k then
          let overridden := userBefore.any fun u => match u with
            | .set k' _ => k' == k
            | .spreadPlain _ => true
            | .setC _ _ => true
            | _ => false
          (alignOptions os [] userBefore).map fun rest => (k, v, overridden) :: rest
        else .error s!"option entry {k} was added"
      | _ => .error "an option entry was added"

def argsOf (c : Node) : List Node := match c with | .mk .call _ [_, .mk .list _ args, _] => args | _ => []
def calleeOfCall (c : Node) : Node := (c.kids.head?).getD nNone

/-- calls of Vue's own defineComponent (by local name AND binding) with their options argument removed: a call NESTED in the
    arguments of another call is judged on its own (it has its own pair); its legitimate augmentation must not count as a
    change of the outer call's arguments -/
partial def blankVueDc (vueLocals : List (String × String)) (n : Node) : Node :=
  match n with
  | .mk .call ("usr" :: r) [.mk .ident (nm :: b :: ir) iks, .mk .list las args, tp] =>
    if vueLocals.contains (nm, b) then
      .mk .call ("usr" :: r) [.mk .ident (nm :: b :: ir) iks, .mk .list las ((args.take 1 ++ args.drop 2).map (blankVueDc vueLocals)), blankVueDc vueLocals tp]
    else .mk .call ("usr" :: r) [.mk .ident (nm :: b :: ir) iks, .mk .list las (args.map (blankVueDc vueLocals)), blankVueDc vueLocals tp]
  | .mk k as ks => .mk k as (ks.map (blankVueDc vueLocals))

def c20Call (o : Opts) (vueLocals : List (String × String)) (decl : Option String) (ci0 co0 : Node) : Option (String × String) :=
  if shallowCallEq ci0 co0 then none else
  -- nested Vue defineComponent calls inside the ARGUMENTS are taken out of the comparison (each is judged as its own pair)
  let blankArgs (c : Node) : Node :=
    match c with
    | .mk .call as [callee, .mk .list las args, ta] => .mk .call as [callee, .mk .list las (args.map (blankVueDc vueLocals)), ta]
    | c => c
  let ci := if o.resolveType then blankArgs ci0 else ci0
  let co := if o.resolveType then blankArgs co0 else co0
  if shallowCallEq ci co then none else
  -- the call was changed: it must be an augmentation that is allowed: the callee is exactly (name AND binding) a local that
  -- imports `defineComponent` by name from 'vue' (a syntax context alone is shared by all top-level bindings of the module)
  let gateOk := o.resolveType && (match calleeOfCall ci with
    | .mk .ident (n :: b :: _) _ => vueLocals.contains (n, b)
    | _ => false)
  if !gateOk then some ("augmented-foreign-call", s!"call of {showN (calleeOfCall ci)} was changed: {showN co}") else
  let ai := argsOf ci
  let ao := argsOf co
  let isSpread (a : Option Node) : Bool := match a with | some (.mk .spreadArg _ _) => true | _ => false
  if isSpread (ai[0]? : Option Node) || isSpread (ai[1]? : Option Node) then some ("spread-arguments-changed", s!"a spread argument list was changed: {showN co}") else
  if ao.length < 2 || !(canon (nList (ai.take 1)) == canon (nList (ao.take 1))) || !(canon (nList (ai.drop 2)) == canon (nList (ao.drop 2))) then
    some ("arguments-changed", s!"arguments other than the options were changed: {showN co}") else
  let inOps : List PropOp := match (ai[1]? : Option Node) with | some (.mk .arg _ [e]) => flattenOptions e | _ => []
  let outOpts : Option Node := (ao[1]? : Option Node).map (fun (a : Node) => match a with | .mk .arg aas [x] => Node.mk .arg aas [unwrapTs x] | a => a)
  match outOpts with
  | some (.mk .arg _ [.mk .object oas oks]) =>
    match alignOptions (flattenOptions (.mk .object oas oks)) inOps [] with
    | .error msg => some ("options-changed", msg ++ ": " ++ showN co)
    | .ok injected =>
      match injected.find? (fun x => x.2.2) with
      | some (k, _, _) => some ("user-option-overridden/" ++ k, s!"the injected `{k}` comes after a user-written entry or spread that can provide it: {showN (.mk .object oas oks)}")
      | none =>
        match injected.find? (fun x => x.1 == "name") with
        | some (_, v, _) =>
          (match decl, v with
           | some d, .mk .str (s :: _) _ => if s == d then none else some ("name-value", s!"name {s} for declaration {d}")
           | none, _ => some ("name-without-declaration", "a name was injected although the call does not initialise a variable declaration")
           | _, _ => some ("name-value", showN v))
        | none => none
  | _ => some ("options-changed", s!"the options argument is not an object literal: {showN co}")

/-- module items of the output without the statements the transform inserted -/
def stripInserted (out : Node) : Node := stripAll (rolesOfModule out) out

def oracleC20 (o : Opts) (inN outN : Node) : Verdict :=
  let pairs := pairCalls inN (stripInserted outN) none
  let nIn := (collect (fun n => match n with | .mk .call ("usr" :: _) _ => true | _ => false) inN).length
  let binds := vueDefineLocals inN
  match pairs.findSome? (fun p => c20Call o binds p.1 p.2.1 p.2.2) with
  | some (k, d) => .fail k d
  | none =>
    -- every defineComponent-looking call of the input must have been visited
    let dcIn := (collect (fun n => match n with | .mk .call ("usr" :: _) (.mk .ident ("defineComponent" :: _) _ :: _) => true | _ => false) inN).length
    let dcPaired := (pairs.filter fun p => match p.2.1 with | .mk .call _ (.mk .ident ("defineComponent" :: _) _ :: _) => true | _ => false).length
    let _ := nIn
    if dcIn != dcPaired then .skip "call-inside-lowered-jsx" else .ok

end VueJsx

/-! ### C09: code that is not JSX is left exactly as written -/
namespace VueJsx

def isJsxNode (n : Node) : Bool :=
  match n.kind with
  | .jsxElement | .jsxFragment => true
  | _ => false

def hasDefineComponentCall (n : Node) : Bool :=
  !(collect (fun x => match x with | .mk .call _ (.mk .ident ("defineComponent" :: _) _ :: _) => true | _ => false) n).isEmpty

/-- calls of Vue's own defineComponent (by binding) with the options argument removed: what may NOT change -/
partial def blankDc (binds : List String) (n : Node) : Node :=
  match n with
  | .mk .call ("usr" :: r) [.mk .ident (nm :: b :: ir) iks, .mk .list las args, tp] =>
    if binds.contains b then
      .mk .call ("usr" :: r) [.mk .ident (nm :: b :: ir) iks, .mk .list las ((args.take 1 ++ args.drop 2).map (blankDc binds)), blankDc binds tp]
    else .mk .call ("usr" :: r) [.mk .ident (nm :: b :: ir) iks, .mk .list las (args.map (blankDc binds)), blankDc binds tp]
  | .mk k as ks => .mk k as (ks.map (blankDc binds))

def oracleC09 (o : Opts) (env : Env) (inN outN : Node) : Verdict :=
  let jsxFree := (collect isJsxNode inN).isEmpty
  let dc := o.resolveType && hasDefineComponentCall inN
  if jsxFree && !dc then
    match firstDiff inN outN [] with
    | none => .ok
    | some (path, a, b) => .fail "jsx-free-module-changed" s!"at {path}: {showN a} became {showN b}"
  else if dc then
    if !jsxFree then .skip "defineComponent-augmentation-with-jsx" else
    -- only the options argument of calls of Vue's own defineComponent may differ
    let binds := vueDefineBinds inN
    match firstDiff (blankDc binds inN) (blankDc binds (stripInserted outN)) [] with
    | none => .ok
    | some (path, a, b) => .fail "changed-outside-defineComponent-options" s!"at {path}: {showN a} became {showN b}"
  else
    -- skeleton: outside the lowered JSX expressions (and the statements the transform inserted) nothing changes
    let d := denote o env inN
    let e := evalOut (effectivePragma o env) outN
    let blank (n : Node) : Node := post (fun x => match x with | .mk (.other "vnode") _ _ => S "vnode" [] [] | x => x) n
    match firstDiff (blank d) (blank e) [] with
    | none => .ok
    | some (path, a, b) => .fail "skeleton" s!"outside JSX, at {path}: {showN a} became {showN b}"

end VueJsx

/-! ### C07: plain ECMAScript/TypeScript, or an error was reported -/
namespace VueJsx

def isIdentStart (c : Char) : Bool := c.isAlpha || c == '_' || c == '$' || c.toNat ≥ 128
def isIdentPart (c : Char) : Bool := c.isAlphanum || c == '_' || c == '$' || c.toNat ≥ 128

/-- IdentifierName (ASCII rules; non-ASCII characters are accepted) -/
def isIdentName (s : String) : Bool :=
  match s.toList with
  | [] => false
  | c :: cs => isIdentStart c && cs.all isIdentPart

def jsxKindName (k : K) : Option String :=
  match k with
  | .jsxElement => some "element" | .jsxFragment => some "fragment" | .jsxMember => some "member-expression"
  | .jsxNsName => some "namespaced-name" | .jsxEmpty => some "empty-expression" | .jsxOpening => some "element"
  | .jsxAttr => some "element" | .jsxText => some "text" | .jsxExprContainer => some "expression-container"
  | .jsxSpreadChild => some "spread-child" | .jsxClosing => some "element"
  | _ => none

def c07Node (n : Node) : Option (String × String) :=
  match n with
  | .mk k _ _ =>
    match jsxKindName k with
    | some nm => some ("leftover-jsx/" ++ nm, showN n)
    | none =>
      match n with
      | .mk .ident ("" :: _) _ => some ("empty-identifier", "an identifier with an empty name")
      | .mk .kv _ [.mk .ident (key :: "n" :: _) _, _] =>
        if isIdentName key then none else some ("invalid-property-key", s!"unquoted object key {key}")
      | .mk .call ("syn" :: _) (.mk .ident (nm :: "e" :: _) _ :: _) =>
        if nm.toList.any Text.isUnicodeWs then some ("multi-word-callee", nm) else none
      | .mk .member _ [_, .mk .ident (pn :: "n" :: _) _] =>
        -- `a.b-c` prints as a subtraction: a property that is not an identifier name has to be computed
        if pn != "" && !isIdentName pn then some ("invalid-member-property", s!"member property {pn} written as an identifier") else none
      | _ => none

def oracleC07 (outN : Node) (diags : List String) : Verdict :=
  if !diags.isEmpty then .ok else
  match (collect (fun n => (c07Node n).isSome) outN).head? with
  | some n => match c07Node n with | some (k, d) => .fail k d | none => .ok
  | none => .ok

end VueJsx

/-! ### C06: every generated name is bound, in scope, initialised, and used -/
namespace VueJsx

def genBindOf (n : Node) : Option String :=
  match n with
  | .mk .ident (_ :: b :: _) _ => if isGenBind b then some b else none
  | _ => none

/-- generated bindings declared directly by a statement / module item: (bind, isLexical(let/const)) -/
def declaredBy (s : Node) : List (String × Bool) :=
  match s with
  | .mk .importDecl _ (.mk .list _ specs :: _) =>
    specs.filterMap fun sp =>
      match sp with
      | .mk .importSpec _ (l :: _) => (genBindOf l).map (·, false)
      | .mk .importDefault _ [l] => (genBindOf l).map (·, false)
      | _ => none
  | .mk .fnDecl _ (id :: _) => ((genBindOf id).map (·, false)).toList
  | .mk .varDecl _ [.mk .list _ decls] =>
    decls.filterMap fun d => match d with | .mk .declarator _ (id :: _) => (genBindOf id).map (·, true) | _ => none
  | .mk (.other "ExportDeclaration") _ [d] =>
    match d with
    | .mk .varDecl _ [.mk .list _ decls] =>
      decls.filterMap fun d => match d with | .mk .declarator _ (id :: _) => (genBindOf id).map (·, true) | _ => none
    | _ => []
  | _ => []

structure ScopeRes where
  errors : List (String × String) := []
  uses : List String := []
  deriving Inhabited

def ScopeRes.merge (a b : ScopeRes) : ScopeRes := { errors := a.errors ++ b.errors, uses := a.uses ++ b.uses }

/-- uses of generated identifiers in `n` that execute when `n` is evaluated (not inside a nested function/arrow) -/
partial def eagerUses (n : Node) : List String :=
  match n with
  | .mk .arrow _ _ => []
  | .mk .fnExpr _ _ => []
  | .mk .fnDecl _ _ => []
  | .mk .methodProp _ _ => []
  | .mk .getterProp _ _ => []
  | .mk .setterProp _ _ => []
  | .mk .declarator _ [_, init] => eagerUses init
  | .mk .ident (_ :: b :: _) [] => if isGenBind b then [b] else []
  | .mk _ _ ks => ks.flatMap eagerUses

mutual
partial def scopeWalk (n : Node) (visible : List String) : ScopeRes :=
  match n with
  | .mk .ident (nm :: b :: _) [] =>
    if isGenBind b then
      { uses := [b], errors := if visible.contains b then [] else [("unbound-generated-name", s!"{nm} is used where no declaration of it is in scope")] }
    else {}
  | .mk .stmts _ items => scopeList items visible
  | .mk .module _ (.mk .list _ items :: _) => scopeList items visible
  | .mk .importDecl _ _ => {}
  | .mk .fnDecl _ (_ :: .mk .list _ params :: rest) => scopeFn params rest visible
  | .mk .fnExpr _ (_ :: .mk .list _ params :: rest) => scopeFn params rest visible
  | .mk .arrow _ (.mk .list _ params :: rest) => scopeFn params rest visible
  | .mk .methodProp _ (k :: .mk .list _ params :: rest) => (scopeWalk k visible).merge (scopeFn params rest visible)
  | .mk .declarator _ [id, init] =>
    -- the binding identifier is a declaration, not a use; its type annotation / pattern defaults are walked
    (match id with | .mk .ident _ ks => scopeWalkL ks visible | p => scopeWalk p visible).merge (scopeWalk init visible)
  | .mk _ _ ks => scopeWalkL ks visible
partial def scopeWalkL (ns : List Node) (visible : List String) : ScopeRes :=
  ns.foldl (fun (acc : ScopeRes) n => acc.merge (scopeWalk n visible)) {}
/-- a statement list: its own lexical declarations are visible in all of it, but must precede every eager use -/
partial def scopeList (items : List Node) (visible : List String) : ScopeRes :=
  let decls := items.flatMap declaredBy
  let vis := visible ++ decls.map (·.1)
  let inner := scopeWalkL items vis
  let rec order (its : List Node) (pendingLex : List String) : List (String × String) :=
    match its with
    | [] => []
    | it :: rest =>
      let here := (declaredBy it).filter (·.2) |>.map (·.1)
      let later := pendingLex.filter (fun b => !here.contains b)
      let bad := (eagerUses it).filter (fun b => later.contains b)
      (bad.map fun b => ("read-before-declaration", s!"generated binding {b} is read by a statement that runs before its let/const declaration")) ++ order rest later
  { inner with errors := inner.errors ++ order items ((decls.filter (·.2)).map (·.1)) }
/-- a function or arrow: parameters are visible in the body, but the body's declarations are NOT visible in the
    parameters' default values -/
partial def scopeFn (params : List Node) (rest : List Node) (visible : List String) : ScopeRes :=
  let paramBinds := (params.flatMap fun p => collect (fun x => match x with | .mk .ident _ [_] => true | _ => false) p).filterMap genBindOf
  let pres : ScopeRes := params.foldl (fun (acc : ScopeRes) p =>
    match p with
    | .mk .ident _ ks => acc.merge (scopeWalkL ks visible)
    | .mk .param _ [d, .mk .ident _ ks] => acc.merge ((scopeWalk d visible).merge (scopeWalkL ks visible))
    | p => acc.merge (scopeWalk p visible)) {}
  pres.merge (scopeWalkL rest (visible ++ paramBinds))
end

/-- (name, binding class) of every identifier declared by a variable declarator, a function declaration or an import -/
def declaredIdents (n : Node) : List (String × String) :=
  (collect (fun _ => true) n).filterMap fun x =>
    match x with
    | .mk .declarator _ (.mk .ident (nm :: b :: _) _ :: _) => some (nm, b)
    | .mk .fnDecl _ (.mk .ident (nm :: b :: _) _ :: _) => some (nm, b)
    | .mk .importSpec _ (.mk .ident (nm :: b :: _) _ :: _) => some (nm, b)
    | .mk .importDefault _ (.mk .ident (nm :: b :: _) _ :: _) => some (nm, b)
    | _ => none

def oracleC06 (o : Opts) (inN outN : Node) : Verdict :=
  let res := scopeWalk outN []
  -- every binding the transform ADDS is a fresh identifier: its binding class occurs nowhere in the input
  let inDecls := declaredIdents inN
  let notFresh := (declaredIdents outN).find? fun d => !inDecls.contains d && !(d.2.startsWith "g" || d.2.startsWith "G")
  match notFresh with
  | some (nm, b) => .fail "inserted-binding-not-fresh" s!"the transform declares {nm} in the binding class {b} of user code (it can capture or collide with a user variable)"
  | none =>
  match res.errors.head? with
  | some (k, d) => .fail k d
  | none =>
    -- a repeated non-mergeable attribute is dropped after its value was lowered (outside the quantifier)
    if o.mergeProps && anyDroppedDuplicate inN then .ok else
    -- conversely, every helper the transform imports or declares is used
    let allDecls := (collect (fun _ => true) outN).flatMap declaredBy
    match allDecls.find? (fun d => !res.uses.contains d.1) with
    | some (b, _) =>
      let nm := ((collect (fun x => genBindOf x == some b) outN).head?).map identName |>.getD b
      .fail "unused-generated-binding" s!"{nm} is imported or declared but never used"
    | none => .ok

end VueJsx

/-! ### C11: evaluated once, in source order, slot content lazily -/
namespace VueJsx

/-- anything but a bare identifier or a literal -/
def isNonTrivial (e : Node) : Bool :=
  match e with
  | .mk .ident _ _ => false
  | .mk .str _ _ => false
  | .mk .num _ _ => false
  | .mk .bool _ _ => false
  | .mk .null _ _ => false
  | .mk .bigint _ _ => false
  | .mk .regex _ _ => false
  | .mk (.other "text") _ _ => false
  | .mk (.other "undef") _ _ => false
  | .mk (.other "Fragment") _ _ => false
  | .mk (.other "builtin") _ _ => false
  | .mk (.other "resolve") _ _ => false
  | .mk (.other "resolveDir") _ _ => false
  | .mk (.other "mods") _ _ => false
  | _ => true

mutual
/-- what is evaluated, in order, when the expression that creates this vnode is evaluated (slot content excluded) -/
partial def creationTrace (v : Node) : List Node :=
  match v with
  | .mk (.other "vnode") _ [tag, props, kids, _, _] =>
    -- what is evaluated at creation is decided by the STRUCTURE: an array of children is evaluated eagerly,
    -- slot functions are not
    exprTrace tag ++ propsTrace props ++ kidsTrace true kids
  | e => exprTrace e
/-- a user expression: one event for the expression itself (nested vnodes inside it are created while it is evaluated) -/
partial def exprTrace (e : Node) : List Node :=
  match e with
  | .mk (.other "vnode") _ _ => [S "vnode" [] []]      -- a nested element: created here; judged on its own pair
  | e => if isNonTrivial e then [shallow e] else []
partial def propsTrace (props : Node) : List Node :=
  props.kids.flatMap fun item =>
    match item with
    | .mk (.other "seg") _ entries =>
      entries.flatMap fun en =>
        match en with
        | .mk (.other "p") _ [.mk (.other "cat") _ parts] => parts.flatMap exprTrace
        | .mk (.other "p") _ [v] => exprTrace v
        | .mk (.other "pc") _ [k, v] => exprTrace k ++ exprTrace v
        | _ => []
    | .mk _ _ [e] => exprTrace e
    | _ => []
partial def kidsTrace (isElem : Bool) (kids : Node) : List Node :=
  match kids with
  | .mk (.other "kids") _ items => items.flatMap fun it => exprTrace (argExpr it)
  | .mk (.other "slotcond") _ (x :: _) => exprTrace x        -- a sole call child: evaluated once, at creation
  | .mk (.other "opaque") _ [e] => exprTrace e
  | .mk (.other "slots") _ entries =>
    -- slot functions are not called at creation; a slots OBJECT's own entries other than functions are evaluated
    entries.flatMap fun en =>
      match en with
      | .mk (.other "spread") _ [e] => exprTrace e
      | _ => []
  | _ => let _ := isElem; []
end

/-- the content of the default slot: evaluated each time the slot function is called -/
def slotTrace (v : Node) : List Node :=
  (kidItems (vKids v)).flatMap fun it => exprTrace (argExpr it)

def oracleC11 (o : Opts) (env : Env) (inN outN : Node) : Verdict :=
  if o.resolveType then .skip "resolveType" else
  let sv := semView o env (effectivePragma o env) inN outN
  let ps := sv.pairs.filter inDom
  -- among the pairs whose traces differ, one that carries a recorded v-model mechanism is reported first: vnodes NESTED in the props
  -- of such an element are paired through its (deviating) props, so their misalignment is a consequence of it, not a second failure
  let failing := ps.filter (fun p => !(creationTrace p.d == creationTrace p.e))
  -- vnodes are paired in evaluation order; where an element carrying a recorded v-model mechanism names a listener differently, the
  -- ORDER of the vnodes nested in its props differs (no merge with a same-named attribute) and the pairs after it are misaligned
  -- (different tags): then that element is the one to report
  let tagOf (v : Node) : Node := (v.kids.head?).getD nNone
  let misaligned := ps.any fun p => !(canon (tagOf p.d) == canon (tagOf p.e))
  let carrier := sv.pairs.find? fun p => ["vmodel-computed-arg", "vmodel-arg-on-element"].any (p.d.atoms.contains ·)
  match (if misaligned && !failing.isEmpty then carrier else none).orElse (fun _ =>
      (failing.find? fun p => ["vmodel-computed-arg", "vmodel-arg-on-element"].any (p.d.atoms.contains ·)).orElse (fun _ => failing.head?)) with
  | some p =>
    -- the recorded v-model mechanisms explain a difference on the element that carries them; a captured copy only
    -- when it occurs in the trace itself
    let key := match ["vmodel-computed-arg", "vmodel-arg-on-element"].find? (fun f => p.d.atoms.contains f) with
      | some f => "creation-trace/" ++ f
      | none =>
        if (creationTrace p.e).any (fun t => !(collect (fun x => x.kind == .other "captured") t).isEmpty)
        then "creation-trace/captured-temporary" else "creation-trace"
    .fail key s!"expected {(creationTrace p.d).map showN} got {(creationTrace p.e).map showN}"
  | none =>
    match ps.find? (fun p => vIsComponent p.d && !(slotTrace p.d == slotTrace p.e)) with
    | some p =>
      .fail (if !(collect (fun x => x.kind == .other "captured") p.e).isEmpty then "slot-trace/captured-temporary" else "slot-trace")
        s!"default slot: expected {(slotTrace p.d).map showN} got {(slotTrace p.e).map showN}"
    | none =>
      -- directive values and arguments: evaluated once each (their order relative to the props is not specified)
      match ps.find? (fun p => !(shallow (vDirs p.d) == shallow (vDirs p.e))) with
      | some p => .fail "directive-expressions" s!"expected {showN (vDirs p.d)} got {showN (vDirs p.e)}"
      | none =>
        if sv.unpaired != 0 && !sv.anyDropped then .fail "unpaired-vnode" "a JSX element has no vnode at its position" else .ok

/-! ### C10: a JSX statement's lowering does not depend on unrelated code around it -/

def moduleItems (m : Node) : List Node :=
  match m with
  | .mk .module _ (.mk .list _ items :: _) => items
  | _ => []

/-- binding classes of the generated identifiers of a tree, by first occurrence -/
def genBindsOf (n : Node) : List String :=
  (collect (fun z => match z with | .mk .ident (_ :: bnd :: _) _ => bnd.startsWith "g" || bnd.startsWith "G" | _ => false) n).foldl
    (fun acc z => match z with | .mk .ident (_ :: bnd :: _) _ => if acc.contains bnd then acc else acc ++ [bnd] | _ => acc) []

def declaresBind (bnd : String) (s : Node) : Bool :=
  !(collect (fun z => match z with
    | .mk .declarator _ (.mk .ident (_ :: b :: _) _ :: _) => b == bnd
    | .mk .importSpec _ (.mk .ident (_ :: b :: _) _ :: _) => b == bnd
    | .mk .fnDecl _ (.mk .ident (_ :: b :: _) _ :: _) => b == bnd
    | _ => false) s).isEmpty

/-- where a generated identifier used by statement `idx` of the module is declared:
    at module level, inside the statement itself, inside some other statement, or nowhere -/
def declPlace (m : Node) (idx : Nat) (bnd : String) : String :=
  let items := moduleItems m
  let direct (s : Node) : Bool :=
    match s with
    | .mk .varDecl _ [.mk .list _ decls] => decls.any fun d => match d with | .mk .declarator _ (.mk .ident (_ :: b :: _) _ :: _) => b == bnd | _ => false
    | .mk .importDecl _ (.mk .list _ specs :: _) => specs.any fun sp => match sp with | .mk .importSpec _ (.mk .ident (_ :: b :: _) _ :: _) => b == bnd | _ => false
    | .mk .fnDecl _ (.mk .ident (_ :: b :: _) _ :: _) => b == bnd
    | _ => false
  if items.any direct then
    -- before or after the statement that uses it (a `let`/`const` after its first use is in its dead zone)
    (match items.findIdx? direct with
     | some di => if di < idx then "module-level-before" else "module-level-after"
     | none => "module-level")
  else if (match items[idx]? with | some s => declaresBind bnd s | none => false) then "inside-the-statement"
  else if items.any (declaresBind bnd) then "inside-another-statement"
  else "nowhere"

/-- `mode` = "c10:<i>:<j>": item i of output A (the statement alone) must equal item j of output B (with code around it),
    after stripping inserted statements and renaming generated identifiers by first occurrence within the statement -/
def oracleC10 (mode : String) (a b : Node) : Verdict :=
  match mode.splitOn ":" with
  | [_, si, sj] =>
    let ia := (moduleItems (stripInserted a))[si.toNat!]?
    let ib := (moduleItems (stripInserted b))[sj.toNat!]?
    match ia, ib with
    | some x, some y =>
      -- the spelling of a temporary (`_slot`, `_slot2`, ...) is not part of the property: identity is the binding
      let anon (n : Node) : Node := post (fun z => match z with
        | .mk .ident (_ :: bnd :: r) ks => if bnd.startsWith "G" then .mk .ident ("_" :: bnd :: r) ks else z
        | z => z) n
      match firstDiff (anon (canon x)) (anon (canon y)) [] with
      | none =>
        -- the declarations the lowering needs (temporaries, helpers, imports) sit in the same place in both modules
        let idxOf (m : Node) (stmt : Node) : Nat := ((moduleItems m).findIdx? (fun s => canon (stripAll (rolesOfModule m) s) == canon stmt)).getD 0
        let pa := (genBindsOf x).map (declPlace a (idxOf a x))
        let pb := (genBindsOf y).map (declPlace b (idxOf b y))
        if pa != pb then
          .fail "declaration-placement-depends-on-context" s!"generated identifiers of the statement are declared {pa} alone but {pb} in context"
        else
          -- binding identity: a module-level temporary the statement uses must not be mentioned by any OTHER statement (alone it
          -- never is); the statement's slot functions read the temporary lazily, so sharing it makes its value depend on other code
          let tempBinds (m : Node) : List String := (moduleItems m).flatMap fun s =>
            match s with
            | .mk .varDecl _ [.mk .list _ decls] =>
              decls.filterMap fun d => match d with
                | .mk .declarator _ (.mk .ident (_ :: bnd :: _) _ :: _) => if isGenBind bnd then some bnd else none
                | _ => none
            | _ => []
          let mentions (bnd : String) (s : Node) : Bool :=
            !(collect (fun z => match z with | .mk .ident (_ :: b2 :: _) _ => b2 == bnd | _ => false) s).isEmpty
          let shared (m : Node) (stmt : Node) (idx : Nat) : List Nat :=
            let users := moduleItems (stripInserted m)
            let temps := tempBinds m
            ((genBindsOf stmt).filter temps.contains).map fun bnd => ((users.eraseIdx idx).filter (mentions bnd)).length
          let sa := shared a x si.toNat!
          let sb := shared b y sj.toNat!
          if sa == sb then .ok
          else .fail "temporary-shared-with-other-code" s!"other statements mentioning each module-level temporary of the statement: alone {sa}, in context {sb}"
      | some (path, p, q) =>
        let caps := (capturedRoles b).map (·.1)
        let cap := !(collect (fun n => match n with | .mk .ident (_ :: bnd :: _) _ => caps.contains bnd | _ => false) y).isEmpty
        -- the RECORDED mechanism (known finding): the remembered target of the last assignment is consumed by the FIRST component after it
        -- whose only child is an identifier or (object slots) a call.  A captured copy in a statement that has such a consumer between
        -- the assignment and itself is NOT that history: it gets a key of its own.
        let consumes (st : Node) : Bool := !(collect (fun z => match z with
            | .mk .cond _ (.mk .call _ (.mk .ident (nm :: _) _ :: _) :: _) => nm.startsWith "_isSlot"
            | .mk .kv _ [.mk _ ("default" :: _) _, .mk .arrow _ (_ :: .mk .array _ [.mk .list _ [.mk .arg _ [.mk .ident _ _]]] :: _)] => true
            | _ => false) st).isEmpty
        let assigns (st : Node) : Bool := !(collect (fun z => match z with
            | .mk .assign _ (.mk .ident _ _ :: _) => true
            | _ => false) st).isEmpty
        let before := ((moduleItems (stripInserted b)).take sj.toNat!).reverse
        let explained := match before.find? (fun st => consumes st || assigns st) with
          | some st => assigns st && !consumes st
          | none => false
        .fail (if cap then (if explained then "lowering-depends-on-context/captured-temporary" else "lowering-depends-on-context/captured-copy-after-a-consumer")
               else "lowering-depends-on-context") s!"at {path}: alone {showN p}, in context {showN q}"
    | _, _ => .fail "statement-not-found" mode
  | _ => .skip "bad-mode"

end VueJsx

namespace VueJsx
def oraclePair (mode : String) (o : Opts) (env : Env) (a b : Node) : Verdict :=
  if mode.startsWith "c10" then oracleC10 mode a b else oraclePair0 mode o env a b
end VueJsx

/-! ### C16–C19: resolveType -/
namespace VueJsx

structure DcView where
  ci : Node
  co : Node
  propsTy : Option Node        -- annotated type of the first setup parameter
  defaults : Option Node       -- its default value
  emitsTy : Option Node        -- E of `SetupContext<E>` on the second parameter
  userKeys : List String       -- options the user wrote
  outOpts : List Node          -- entries of the output's options object
  deriving Inhabited

def optionsEntries (c : Node) : List Node :=
  match ((argsOf c)[1]? : Option Node) with
  | some (.mk .arg _ [.mk .object _ [.mk .list _ props]]) => props
  | _ => []

def dcViews (o : Opts) (inN outN : Node) : List DcView :=
  if !o.resolveType then [] else
  let binds := vueDefineBinds inN
  (pairCalls inN (stripInserted outN) none).filterMap fun p =>
    let ci := p.2.1
    let co := p.2.2
    match calleeOfCall ci with
    | .mk .ident ("defineComponent" :: b :: _) _ =>
      if !binds.contains b then none else
      match (argsOf ci).head? with
      | some first =>
        match setupParams first with
        | none => none
        | some params =>
          let p0 := params.head?
          let defaults : Option Node := match p0 with | some (.mk .assignPat _ [_, r]) => some r | _ => none
          let propsTy := p0.bind (patTypeAnn 64)
          let emitsTy : Option Node :=
            match (params[1]? : Option Node) with
            | some q =>
              let ann := match q with
                | .mk .ident _ [a] => typeAnnInner a
                | .mk .arrayPat _ [_, a] => typeAnnInner a
                | .mk .objectPat _ [_, a] => typeAnnInner a
                | _ => none
              match ann with
              | some (.mk .tsTypeRef _ [.mk .ident ("SetupContext" :: _) _, .mk .tsTypeParamInst _ [.mk .list _ (e :: _)]]) => some e
              | _ => none
            | none => none
          let userKeys := ["props", "emits", "name"].filter fun k => (optionsEntries ci).any (isOptionNamed · k)
          let spreadArgs := ((argsOf ci).take 2).any fun a => match a with | .mk .spreadArg _ _ => true | _ => false
          if spreadArgs then none else
          some { ci := ci, co := co, propsTy := propsTy, defaults := defaults, emitsTy := emitsTy, userKeys := userKeys, outOpts := optionsEntries co }
      | none => none
    | _ => none

def optionValue (entries : List Node) (name : String) : Option Node :=
  entries.findSome? fun e => match e with | .mk .kv _ [k, v] => (if staticKeyOf k == some name then some v else none) | _ => none

/-- the declared-props object: either the literal, or the first argument of `mergeDefaults(props, defaults)` -/
def propsObjectOf (v : Node) : Option (List Node × Option Node) :=
  match v with
  | .mk .object _ [.mk .list _ ps] => some (ps, none)
  | .mk .call _ [.mk .ident ("_mergeDefaults" :: _) _, .mk .list _ [.mk .arg _ [.mk .object _ [.mk .list _ ps]], .mk .arg _ [d]], _] => some (ps, some d)
  | _ => none

def keyText (k : Node) : String :=
  match k with
  | .mk .ident (n :: _) _ => "i:" ++ n
  | .mk .str (v :: _) _ => "s:" ++ v
  | .mk .num (v :: _) _ => "n:" ++ v
  | .mk .computed _ [.mk .ident (n :: _) _] => "c:" ++ n       -- `[name]`: named by the value of `name`
  | _ => "?"

def ctorName : Ctor → String
  | .named n => n
  | .nullValue => "null"
  | .anyValue => "any"

def sameCtorSet (a b : List Ctor) : Bool := a.all (b.contains ·) && b.all (a.contains ·)

def boolStringOrder (cs : List Ctor) : List Ctor := cs.filter fun c => c == .named "Boolean" || c == .named "String"

/-- the module with every bigint LITERAL type read as a number literal type (the recorded C17 finding's reading) -/
partial def bigLitAsNumber (n : Node) : Node :=
  match n with
  | .mk .tsLitType as [.mk .bigint las lks] => .mk .tsLitType as [.mk .num las lks]
  | .mk k as ks => .mk k as (ks.map bigLitAsNumber)

/-- C16 / C17 on one call -/
def propsJudge (prop : String) (reg regBL : St) (diags : List String) (diagsExplained : Bool) (bigLitInModule : Bool) (v : DcView) : Option (String × String) :=
  match v.propsTy with
  | none => none
  | some ty =>
    if v.userKeys.contains "props" then none else
    let emitted := (optionValue v.outOpts "props").bind propsObjectOf
    match propsOfType FUEL reg ty, emitted with
    | .outside, _ => none
    | .unresolved, _ =>
      -- imported / undeclared / unsupported: must have been reported
      if prop == "C16" && diags.isEmpty then some ("unresolved-type-not-reported", s!"no error for the props type {showN ty}") else none
    | .ok _, none => if prop == "C16" then some ("props-not-injected", s!"no props option for {showN ty}") else none
    | .ok spec, some (entries, _) =>
      if prop == "C16" then
        let eKeys := entries.filterMap fun e => match e with | .mk .kv _ [k, _] => some (keyText k) | _ => none
        let sKeys := spec.map (keyText ·.key)
        if !(sKeys.all (eKeys.contains ·) && eKeys.all (sKeys.contains ·)) then
          some (if !diags.isEmpty && eKeys.length < sKeys.length then "declared-props-missing/with-error" else "declared-props-mismatch",
                s!"declared {sKeys} emitted {eKeys} (diagnostics {diags})")
        else if !diags.isEmpty && !diagsExplained then some ("spurious-error", s!"the type resolves to {sKeys} but an error was reported: {diags}")
        else
          -- a key declared several times (intersection / merged interfaces): optional only if every occurrence is
          let dupFree := spec.filter fun p => (spec.filter (fun q => keyText q.key == keyText p.key)).length == 1
          match dupFree.find? (fun p =>
            let ent := entries.findSome? fun e => match e with | .mk .kv _ [k, .mk .object _ [.mk .list _ fs]] => (if keyText k == keyText p.key then some fs else none) | _ => none
            match ent.bind (optionValue · "required") with
            | some (.mk .bool [b] _) => (b == "true") == p.optional
            | _ => true) with
          | some p => some ("requiredness", s!"prop {keyText p.key} optional={p.optional}")
          | none => none
      else
        -- C17: the emitted constructors are those of the declared type (all occurrences of a key together)
        spec.findSome? fun p =>
          let ent := entries.findSome? fun e => match e with | .mk .kv _ [k, .mk .object _ [.mk .list _ fs]] => (if keyText k == keyText p.key then some fs else none) | _ => none
          match ent.bind (optionValue · "type") with
          | none => none
          | some te =>
            let occ := spec.filter fun q => keyText q.key == keyText p.key
            let expected := normCtors (occ.foldl (fun acc q =>
              ctorUnion acc (if q.isMethod then [Ctor.named "Function"] else match q.ty with | some t => ctorsOfType FUEL reg t | none => [.anyValue])) [])
            match ctorsOfEmitted te with
            | none => some ("type-expression", showN te)
            | some got =>
              -- `type: null` (no check) is how a lone `null`/`undefined` type is emitted: sound
              if got == [.anyValue] && expected == [.nullValue] then none
              else if !sameCtorSet expected got then
                -- the recorded finding: a bigint LITERAL type is mapped to Number (possibly behind aliases)
                let expectedBL := normCtors (occ.foldl (fun acc q =>
                  ctorUnion acc (if q.isMethod then [Ctor.named "Function"] else match q.ty with | some t => ctorsOfType FUEL regBL (bigLitAsNumber t) | none => [.anyValue])) [])
                let hasBigLit := bigLitInModule && sameCtorSet expectedBL got
                some ((if expected == [.anyValue] then "runtime-type/any-in-union" else if hasBigLit then "runtime-type/bigint-literal" else "runtime-type"),
                      s!"prop {keyText p.key}: type {match p.ty with | some t => showN t | none => "method"} has constructors {expected.map ctorName} but {got.map ctorName} were emitted")
              else if boolStringOrder expected != boolStringOrder got then
                some ("boolean-string-order", s!"prop {keyText p.key}: {got.map ctorName}")
              else none

def emitsJudge (reg : St) (diags : List String) (v : DcView) : Option (String × String) :=
  if v.userKeys.contains "emits" then none else
  let emitted : Option (List String) := (optionValue v.outOpts "emits").bind fun e =>
    match e with
    | .mk .array _ [.mk .list _ es] => some (es.filterMap fun x => match x with | .mk .arg _ [.mk .str (s :: _) _] => some s | _ => none)
    | _ => none
  match v.emitsTy with
  | none => if emitted.isSome then some ("emits-without-annotation", "an emits option was injected without a SetupContext<E> annotation") else none
  | some ty =>
    match emitsOfType FUEL reg ty, emitted with
    | none, _ => if diags.isEmpty && emitted.isNone then some ("unresolved-emits-not-reported", showN ty) else none
    | some _, none => some ("emits-not-injected", showN ty)
    | some spec, some got =>
      if spec.all (got.contains ·) && got.all (spec.contains ·) then none
      else some (if !diags.isEmpty then "declared-events-mismatch/with-error" else "declared-events-mismatch", s!"declared {spec} emitted {got} (diagnostics {diags})")

/-- C18: the default Vue resolves for a prop is the value written -/
def defaultsJudge (reg : St) (v : DcView) : Option (String × String) :=
  match v.propsTy, v.defaults with
  | some ty, some d =>
    if v.userKeys.contains "props" then none else
    match (optionValue v.outOpts "props").bind propsObjectOf, propsOfType FUEL reg ty with
    | some (entries, merged), .ok spec =>
      let static := match d with | .mk .object _ [.mk .list _ ps] => allStaticSpec ps | _ => none
      match static, merged with
      | none, some dd =>
        if canon dd != canon d then some ("mergeDefaults-argument", showN dd)
        else
          -- the declarations handed to mergeDefaults carry no default of their own (nobody wrote one for THIS call)
          match carrying entries with
          | [] => none
          | ks => some ("merged-declarations-carry-defaults", s!"the declarations handed to mergeDefaults already carry a `default` for {ks}")
      | none, none => some ("dynamic-defaults-not-merged", s!"the default {showN d} is not statically analysable but mergeDefaults was not used")
      | some _, some _ => some ("static-defaults-merged-at-runtime", "statically known defaults were passed to mergeDefaults")
      | some ds, none =>
        spec.findSome? fun p =>
          let ent := entries.findSome? fun e => match e with | .mk .kv _ [k, .mk .object _ [.mk .list _ fs]] => (if keyText k == keyText p.key then some fs else none) | _ => none
          let got := ent.bind (optionValue · "default")
          -- Vue (`resolvePropValue`): `if (opt.type !== Function && isFunction(default)) value = default(props) else value = default` —
          -- a default is taken as the value itself ONLY when the prop's `type` is exactly `Function`; for every other `type`
          -- (`[String, Function]`, `[Function, null]`, `null`) a function default is CALLED as a factory.  All occurrences of the key count.
          let occ := spec.filter fun q => keyText q.key == keyText p.key
          let isFn := normCtors (occ.foldl (fun acc q =>
              ctorUnion acc (if q.isMethod then [Ctor.named "Function"] else match q.ty with | some t => ctorsOfType FUEL reg t | none => [.anyValue])) [])
            == [.named "Function"]
          let want := (ds.find? (fun x => x.1 == specKeyName p.key)).map fun x => expectedDefault isFn x.2
          match want, got with
          | none, none => none
          | some w, some g => if canon w == canon g then none else some ((if isFn then "default-value/function-typed" else "default-value"), s!"prop {keyText p.key}: expected {showN w} got {showN g}")
          | some w, none => some ("default-missing", s!"prop {keyText p.key}: expected {showN w}")
          | none, some g => some ("default-invented", s!"prop {keyText p.key}: {showN g}")
    | _, _ => none
  | some _, none =>
    -- no default written for the props parameter: no prop receives a `default`, and nothing goes through mergeDefaults
    if v.userKeys.contains "props" then none else
    match (optionValue v.outOpts "props").bind propsObjectOf with
    | some (entries, merged) =>
      if merged.isSome then some ("mergeDefaults-without-a-written-default", "the props parameter has no default but the props go through mergeDefaults")
      else
        match carrying entries with
        | [] => none
        | ks => some ("default-without-a-written-default", s!"the props parameter has no default, yet props {ks} received a `default`")
    | none => none
  | _, _ => none
where
  /-- the declared props that carry a `default` entry (in any spelling) -/
  carrying (entries : List Node) : List String :=
    entries.filterMap fun e =>
      match e with
      | .mk .kv _ [k, .mk .object _ [.mk .list _ fs]] =>
        if fs.any (fun f => match f with
            | .mk .kv _ (fk :: _) => staticKeyOf fk == some "default"
            | .mk .methodProp _ (fk :: _) => staticKeyOf fk == some "default"
            | .mk .getterProp _ (fk :: _) => staticKeyOf fk == some "default"
            | .mk .ident ("default" :: _) _ => true
            | _ => false) then some (keyText k) else none
      | _ => none
  /-- statically known defaults: (key name, written form) -/
  allStaticSpec (ps : List Node) : Option (List (String × Node)) :=
    ps.foldl (fun acc p =>
      match acc with
      | none => none
      | some a =>
        match p with
        | .mk .ident (n :: _) _ => some (a ++ [(n, S "shorthand" [] [p])])
        | .mk .kv _ [k, v] =>
          (match k with
           | .mk .computed _ [.mk .str (s :: _) _] => some (a ++ [(s, v)])
           | .mk .computed _ [.mk .num (s :: _) _] => some (a ++ [(s, v)])
           | .mk .computed _ _ => none
           | k => (staticKeyOf k).map fun s => a ++ [(s, v)])
        | .mk .getterProp _ [k, _, body] => (match (k : Node) with | .mk .computed _ [.mk .str (s :: _) _] => some s | .mk .computed _ _ => none | k => staticKeyOf k).map fun s => a ++ [(s, S "getter" [] [body])]
        | .mk .methodProp as (k :: fnKids) => (match (k : Node) with | .mk .computed _ [.mk .str (s :: _) _] => some s | .mk .computed _ _ => none | k => staticKeyOf k).map fun s => a ++ [(s, S "method" [] [Node.mk .fnExpr as (nNone :: fnKids)])]
        | _ => none) (some [])
  /-- what the `default` entry must be for a written default -/
  expectedDefault (isFn : Bool) (w : Node) : Node :=
    match w with
    | .mk (.other "shorthand") _ [.mk .ident (n :: b :: _) _] => if isFn then nIdent n b else nArrow [] (nIdent n b)
    | .mk (.other "getter") _ [body] => if isFn then nCall (nArrow [] body) [] else nArrow [] body
    | .mk (.other "method") _ [f] => f                       -- a method: the function itself (Vue's own `withDefaults` idiom: for a prop that is not `Function` it IS the factory)
    | v => if isLit v || isFn then v else nArrow [] v

def oracleTypes (prop : String) (o : Opts) (inN outN : Node) (diags : List String) : Verdict :=
  if !o.resolveType then .skip "resolveType-off" else
  let reg := specRegistry inN
  let views := dcViews o inN outN
  if views.isEmpty then .skip "no-defineComponent-call" else
  -- diagnostics are reported per module: an error is "explained" when SOME call of the module has a props / emits type
  -- that does not resolve (or lies outside the grammar); it is then not held against the other calls
  let diagsExplained := views.any fun v =>
    (match v.propsTy with | some ty => (match propsOfType FUEL reg ty with | .ok _ => false | _ => true) | none => false)
    || (match v.emitsTy with | some ty => (emitsOfType FUEL reg ty).isNone | none => false)
  let judge (v : DcView) : Option (String × String) :=
    if prop == "C16" || prop == "C17" then
      propsJudge prop reg (specRegistry (bigLitAsNumber inN)) diags diagsExplained (!(collect (fun x => match x with | .mk .tsLitType _ [.mk .bigint _ _] => true | _ => false) inN).isEmpty) v
    else if prop == "C19" then emitsJudge reg diags v
    else defaultsJudge reg v
  match views.findSome? judge with
  | some (k, d) => .fail k d
  | none => .ok

end VueJsx
