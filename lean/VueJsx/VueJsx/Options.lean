/-
  Options: model of `serde_json::from_str::<Options>(config)` as done by plugin/src/lib.rs, i.e. of
  `#[derive(Deserialize)] #[serde(rename_all = "camelCase", default)] struct Options` (visitor/src/options.rs)
  applied to a JSON VALUE (JSON text parsing itself is trusted).  Regex validity is a parameter answered by the
  real `regex` crate.
-/
import VueJsx.Base

namespace VueJsx

inductive Json where
  | null
  | bool (b : Bool)
  | num (s : String)
  | str (s : String)
  | arr (xs : List Json)
  | obj (kvs : List (String × Json))
  deriving Repr, Inhabited

structure OptionsV where
  transformOn : Bool := false
  optimize : Bool := false
  customElementPatterns : List String := []
  mergeProps : Bool := true
  enableObjectSlots : Bool := true
  pragma : Option String := none
  resolveType : Bool := false
  deriving Repr, DecidableEq, Inhabited

/-- `Options::default()` -/
def OptionsV.default : OptionsV := {}

def knownKeys : List String :=
  ["transformOn", "optimize", "customElementPatterns", "mergeProps", "enableObjectSlots", "pragma", "resolveType"]

def asBool : Json → Option Bool
  | .bool b => some b
  | _ => none

/-- `Option<String>`: null is None -/
def asOptString : Json → Option (Option String)
  | .null => some none
  | .str s => some (some s)
  | _ => none

/-- `Vec<Regex>`: an array of strings, each a valid regex -/
def asPatterns (valid : String → Bool) : Json → Option (List String)
  | .arr xs =>
    xs.foldr (fun x acc =>
      match x, acc with
      | .str s, some rest => if valid s then some (s :: rest) else none
      | _, _ => none) (some [])
  | _ => none

/-- set one field from its JSON value; `none` = type error -/
def setField (valid : String → Bool) (o : OptionsV) (k : String) (v : Json) : Option OptionsV :=
  if k == "transformOn" then (asBool v).map fun b => { o with transformOn := b }
  else if k == "optimize" then (asBool v).map fun b => { o with optimize := b }
  else if k == "customElementPatterns" then (asPatterns valid v).map fun p => { o with customElementPatterns := p }
  else if k == "mergeProps" then (asBool v).map fun b => { o with mergeProps := b }
  else if k == "enableObjectSlots" then (asBool v).map fun b => { o with enableObjectSlots := b }
  else if k == "pragma" then (asOptString v).map fun p => { o with pragma := p }
  else if k == "resolveType" then (asBool v).map fun b => { o with resolveType := b }
  else some o          -- unknown keys are ignored (no `deny_unknown_fields`)

/-- map form: fold over the entries; a known key seen twice is serde's "duplicate field" error -/
def parseEntries (valid : String → Bool) : List (String × Json) → OptionsV → List String → Option OptionsV
  | [], o, _ => some o
  | (k, v) :: rest, o, seen =>
    if knownKeys.contains k && seen.contains k then none
    else
      match setField valid o k v with
      | some o' => parseEntries valid rest o' (k :: seen)
      | none => none

/-- sequence form (serde also accepts a struct as a positional array; missing trailing fields default) -/
def parseSeq (valid : String → Bool) : List Json → List String → OptionsV → Option OptionsV
  | [], _, o => some o
  | _ :: _, [], o => some o            -- extra elements: serde_json reports trailing elements as an error
  | v :: vs, k :: ks, o =>
    match setField valid o k v with
    | some o' => parseSeq valid vs ks o'
    | none => none

/-- `serde_json::from_str::<Options>` on a JSON value -/
def parseOptions (valid : String → Bool) : Json → Option OptionsV
  | .obj kvs => parseEntries valid kvs OptionsV.default []
  | .arr xs => if xs.length > knownKeys.length then none else parseSeq valid xs knownKeys OptionsV.default
  | _ => none

/-- what the plugin does with an optional config string -/
def pluginOptions (valid : String → Bool) (cfg : Option Json) : Option OptionsV :=
  match cfg with
  | none => some OptionsV.default
  | some j => parseOptions valid j

end VueJsx
