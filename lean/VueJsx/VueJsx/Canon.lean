/-
  Canon: renaming of generated identifiers by first occurrence (names of temporaries are compared,
  their numbering is not), structural diff of two trees, and generic traversals used by the driver.
-/
import VueJsx.Base

namespace VueJsx

def isGenBind (b : String) : Bool := b.toList.head? == some 'g'

mutual
def canonNode : Node → List (String × Nat) → Node × List (String × Nat)
  | .mk .ident (n :: b :: rest) ks, m =>
    if isGenBind b then
      match m.find? (fun p => p.1 == b) with
      | some p =>
        let (ks', m) := canonList ks m
        (.mk .ident (n :: ("G" ++ toString p.2) :: rest) ks', m)
      | none =>
        let k := m.length
        let m := m ++ [(b, k)]
        let (ks', m) := canonList ks m
        (.mk .ident (n :: ("G" ++ toString k) :: rest) ks', m)
    else
      let (ks', m) := canonList ks m
      (.mk .ident (n :: b :: rest) ks', m)
  | .mk k as ks, m =>
    let (ks', m) := canonList ks m
    (.mk k as ks', m)
def canonList : List Node → List (String × Nat) → List Node × List (String × Nat)
  | [], m => ([], m)
  | x :: xs, m =>
    let (x', m) := canonNode x m
    let (xs', m) := canonList xs m
    (x' :: xs', m)
end

def canon (n : Node) : Node := (canonNode n []).1

/-- first differing position of two trees: path of child indices and the two subtrees -/
partial def firstDiff (a b : Node) (path : List Nat) : Option (List Nat × Node × Node) :=
  match a, b with
  | .mk k1 a1 c1, .mk k2 a2 c2 =>
    if k1 != k2 || a1 != a2 || c1.length != c2.length then some (path.reverse, a, b)
    else
      let rec go (xs ys : List Node) (i : Nat) : Option (List Nat × Node × Node) :=
        match xs, ys with
        | x :: xs, y :: ys =>
          match firstDiff x y (i :: path) with
          | some d => some d
          | none => go xs ys (i + 1)
        | _, _ => none
      go c1 c2 0

end VueJsx
