/-
  ResolveType: model of visitor/src/resolve_type.rs and of the `defineComponent` hooks in lib.rs
  (`visit_mut_call_expr`, `visit_mut_var_declarator`, `inject_define_component_option`,
   `visit_mut_ts_interface_decl`, `visit_mut_ts_type_alias_decl`).

  The only non-structural recursion of the whole model is here: resolution follows user-declared aliases and
  interfaces through the registry.  It takes fuel; running out of fuel is the model's image of the real code's
  unbounded recursion (native stack overflow).
-/
import VueJsx.Base

namespace VueJsx

/-- `MAX_TYPE_RESOLUTION_DEPTH` -/
def FUEL : Nat := 64

/-- marker for `any` / `unknown` among the inferred runtime types -/
def ANY_TYPE : String := "any"

def tooDeep : String := "Error: Type is circular or nested too deeply to be resolved."

/-- `enter_type_resolution` at nesting depth `FUEL - (fuel + 1)`: a resolution that starts (depth 0) forgets an earlier give-up;
    a nested one is skipped (`none`) once the resolution in progress has given up -/
def enterRes (fuel : Nat) (st : St) : Option St :=
  if fuel + 1 == 64 then some { st with typeGaveUp := false }
  else if st.typeGaveUp then none else some st

theorem enterRes_ok (fuel : Nat) (st : St) (h : st.typeGaveUp = false) : enterRes fuel st = some st := by
  unfold enterRes
  split
  · cases st; simp_all
  · simp [h]

@[simp] theorem err_typeGaveUp (st : St) (m : String) : (st.err m).typeGaveUp = st.typeGaveUp := rfl

/-- the depth limit is hit: reported once per resolution, which is then unwound -/
def giveUp (st : St) : St :=
  if st.typeGaveUp then st else { st.err tooDeep with typeGaveUp := true }

/-- runtime type entry: `some "String"` … or `none` for the `null` value -/
abbrev RT := Option String

def rtInsert (x : RT) (xs : List RT) : List RT := if xs.contains x then xs else xs ++ [x]
def rtExtend (xs ys : List RT) : List RT := ys.foldl (fun acc y => rtInsert y acc) xs

def lookupReg (reg : List ((String × String) × Node)) (key : String × String) : Option Node :=
  (reg.find? (fun p => p.1 == key)).map (·.2)

def typeParamsList : Node → List Node
  | .mk .tsTypeParamInst _ [.mk .list _ ps] => ps
  | _ => []

def typeAnnInner : Node → Option Node
  | .mk .tsTypeAnn _ [t] => some t
  | _ => none

/-- keep only the member kinds `resolve_type_elements` refines -/
def refineMembers (members : List Node) : List Node :=
  members.filter fun m =>
    match m with
    | .mk .tsPropSig _ _ => true
    | .mk .tsMethodSig _ _ => true
    | .mk .tsGetterSig _ _ => true
    | .mk .tsCallSig _ _ => true
    | _ => false

def setOptional (v : Bool) (m : Node) : Node :=
  let s := if v then "true" else "false"
  match m with
  | .mk .tsPropSig [ro, comp, _] ks => .mk .tsPropSig [ro, comp, s] ks
  | .mk .tsMethodSig [comp, _] ks => .mk .tsMethodSig [comp, s] ks
  -- a getter signature has no optional flag: under `Partial` it becomes the optional (readonly) property it declares
  | .mk .tsGetterSig as ks => if v then .mk .tsPropSig ["true", as.headD "false", "true"] ks else m
  | m => m

/-- static key name of a member (identifier or string literal key) -/
def memberKeyName (m : Node) : Option (Option String) :=   -- none: no key at all (call signature)
  -- the key and the member's `computed` flag
  let key : Option (Node × String) :=
    match m with
    | .mk .tsPropSig as (k :: _) => some (k, as.getD 1 "false")
    | .mk .tsMethodSig as (k :: _) => some (k, as.headD "false")
    | .mk .tsGetterSig as (k :: _) => some (k, as.headD "false")
    | _ => none
  key.map fun (k, computed) =>
    -- `static_key_name`: `name`, `'name'`, `['name']` - not `[name]`, which is named by the value of `name`
    match k with
    | .mk .ident (n :: _) _ => if computed == "true" then none else some n
    | .mk .str (v :: _) _ => some v
    | _ => none

def nFunctionRef : Node := .mk .tsTypeRef [] [nIdent "Function" "e", nNone]
def nUnionType (ts : List Node) : Node := .mk .tsUnion [] [nList ts]

/-- `resolve_string_or_union_strings` -/
def resolveStrings (fuel : Nat) (st : St) (ty : Node) : List String × St :=
  match fuel with
  | 0 => ([], giveUp st)
  | fuel + 1 =>
    match enterRes fuel st with
    | none => ([], st)
    | some st =>
    match ty with
    | .mk .tsLitType _ [.mk .str (v :: _) _] => ([v], st)
    | .mk .tsUnion _ [.mk .list _ types] =>
      types.foldl (fun (acc : List String × St) t =>
        match t with
        | .mk .tsLitType _ [.mk .str (v :: _) _] => (acc.1 ++ [v], acc.2)
        | t => let (more, st) := resolveStrings fuel acc.2 t; (acc.1 ++ more, st)) ([], st)
    | .mk .tsTypeRef _ (.mk .ident (n :: b :: _) _ :: _) =>
      match lookupReg st.typeAliases (n, b) with
      | some aliased => resolveStrings fuel st aliased
      | none =>
        if b == "u" then
          ([], st.err "Error: Unresolvable type reference or unsupported built-in utility type.")
        else ([], st.err "Error: Types from other modules can't be resolved.")
    | .mk .tsParen _ [t] => resolveStrings fuel st t
    | .mk .tsKeyword ["never"] _ => ([], st)          -- the empty union
    | _ => ([], st.err "Error: Unsupported type as index key.")

/-- the member types an index type selects out of a member list -/
def selectMembers (fuel : Nat) (st : St) (members : List Node) (index : Node) : List Node × St :=
  let annOf (m : Node) : Option Node :=
    match m with
    | .mk .tsPropSig _ [_, ann] => typeAnnInner ann
    | .mk .tsGetterSig _ [_, ann] => typeAnnInner ann
    | _ => none
  match index with
  | .mk .tsKeyword ["string"] _ =>
    (members.filterMap fun m =>
      match m with
      | .mk .tsPropSig _ _ => (match memberKeyName m with | some (some _) => annOf m | _ => none)
      | .mk .tsGetterSig _ _ => (match memberKeyName m with | some (some _) => annOf m | _ => none)
      | .mk .tsIndexSig _ ks => (ks[1]?).bind typeAnnInner
      | .mk .tsMethodSig _ _ => some nFunctionRef
      | _ => none, st)
  | idx =>
    let isKeyish :=
      match idx with
      | .mk .tsLitType _ [.mk .str _ _] => true
      | .mk .tsUnion _ _ => true
      | .mk .tsTypeRef _ _ => true
      | .mk .tsParen _ _ => true
      | _ => false
    if !isKeyish then ([], st) else
    let (keys, st) := resolveStrings fuel st idx
    (members.filterMap fun m =>
      match m with
      | .mk .tsPropSig _ _ =>
        (match memberKeyName m with | some (some k) => if keys.contains k then annOf m else none | _ => none)
      | .mk .tsGetterSig _ _ =>
        (match memberKeyName m with | some (some k) => if keys.contains k then annOf m else none | _ => none)
      | .mk .tsMethodSig _ _ =>
        (match memberKeyName m with | some (some k) => if keys.contains k then some nFunctionRef else none | _ => none)
      | _ => none, st)

def natOfNumAtom (s : String) : Nat :=
  -- `num.value as usize`: truncation toward zero, negatives and NaN saturate to 0
  match (s.splitOn ".").head? with
  | some ip => (ip.toNat?).getD 0
  | none => 0

mutual
/-- `resolve_indexed_access` -/
def resolveIndexed (fuel : Nat) (st : St) (obj index : Node) : Option Node × St :=
  match fuel with
  | 0 => (none, giveUp st)
  | fuel + 1 =>
    match enterRes fuel st with
    | none => (none, st)
    | some st =>
    let pack (props : List Node) : Option Node :=
      match props with
      | [p] => some p
      | ps => some (nUnionType ps)
    match obj with
    | .mk .tsTypeRef _ [.mk .ident (n :: b :: _) _, tparams] =>
      match lookupReg st.typeAliases (n, b) with
      | some aliased => resolveIndexed fuel st aliased index
      | none =>
        match lookupReg st.interfaces (n, b) with
        | some (.mk .tsIface _ [_, _, .mk .list _ extends_, .mk .tsIfaceBody _ [.mk .list _ members]]) =>
          let (props, st) := selectMembers fuel st members index
          -- inherited members
          let (props, st) := extends_.foldl (fun (acc : List Node × St) parent =>
            match parent with
            | .mk .tsExprWithTypeArgs _ [.mk .ident ias _, targs] =>
              match resolveIndexed fuel acc.2 (.mk .tsTypeRef [] [.mk .ident ias [], targs]) index with
              | (some (.mk .tsUnion _ [.mk .list _ types]), st) => (acc.1 ++ types, st)
              | (some t, st) => (acc.1 ++ [t], st)
              | (none, st) => (acc.1, st)
            | _ => acc) (props, st)
          (pack props, st)
        | some _ => (none, st)
        | none =>
          if b == "u" && n == "Array" then ((typeParamsList tparams).head?, st)
          else if b == "u" && (n == "Partial" || n == "Required" || n == "Pick" || n == "Omit") then
            -- `resolve_indexed_access_through_members`: into the type literal made of the resolved members
            let (ms, st) := resolveElements fuel st obj
            resolveIndexed fuel st (.mk .tsTypeLit [] [nList ms]) index
          else (none, st)
    | .mk .tsIntersection _ _ =>
      let (ms, st) := resolveElements fuel st obj
      resolveIndexed fuel st (.mk .tsTypeLit [] [nList ms]) index
    | .mk .tsParen _ [t] => resolveIndexed fuel st t index
    | .mk .tsTypeLit _ [.mk .list _ members] =>
      let (props, st) := selectMembers fuel st members index
      (pack props, st)
    | .mk .tsArray _ [elem] =>
      match index with
      | .mk .tsKeyword ["number"] _ => (some elem, st)
      | .mk .tsLitType _ [.mk .num _ _] => (some elem, st)
      | _ => (none, st)
    | .mk .tsTuple _ [.mk .list _ elems] =>
      let tyOf (e : Node) : Node := match e with | .mk .tsTupleElem _ [_, t] => t | e => e
      match index with
      | .mk .tsLitType _ [.mk .num (v :: _) _] => ((elems[natOfNumAtom v]?).map tyOf, st)
      | .mk .tsKeyword ["number"] _ => (some (nUnionType (elems.map tyOf)), st)
      | _ => (none, st)
    | _ => (none, st)

/-- `resolve_type_elements` -/
def resolveElements (fuel : Nat) (st : St) (ty : Node) : List Node × St :=
  match fuel with
  | 0 => ([], giveUp st)
  | fuel + 1 =>
    match enterRes fuel st with
    | none => ([], st)
    | some st =>
    let unresolvable := "Error: Unresolvable type."
    match ty with
    | .mk .tsTypeLit _ [.mk .list _ members] => (refineMembers members, st)
    | .mk .tsUnion _ [.mk .list _ types] =>
      types.foldl (fun (acc : List Node × St) t =>
        let (more, st) := resolveElements fuel acc.2 t; (acc.1 ++ more, st)) ([], st)
    | .mk .tsIntersection _ [.mk .list _ types] =>
      types.foldl (fun (acc : List Node × St) t =>
        let (more, st) := resolveElements fuel acc.2 t; (acc.1 ++ more, st)) ([], st)
    | .mk .tsTypeRef _ [.mk .ident (n :: b :: _) _, tparams] =>
      match lookupReg st.typeAliases (n, b) with
      | some aliased => resolveElements fuel st aliased
      | none =>
        match lookupReg st.interfaces (n, b) with
        | some (.mk .tsIface _ [_, _, .mk .list _ extends_, .mk .tsIfaceBody _ [.mk .list _ members]]) =>
          extends_.foldl (fun (acc : List Node × St) parent =>
            match parent with
            | .mk .tsExprWithTypeArgs _ [.mk .ident ias _, targs] =>
              let (more, st) := resolveElements fuel acc.2 (.mk .tsTypeRef [] [.mk .ident ias [], targs])
              (acc.1 ++ more, st)
            | _ => (acc.1, acc.2.err "Error: Unresolvable type.")) (refineMembers members, st)
        | some _ => ([], st)
        | none =>
          if b == "u" then
            let ps := typeParamsList tparams
            if n == "Partial" then
              match ps.head? with
              | some p => let (inner, st) := resolveElements fuel st p; (inner.map (setOptional true), st)
              | none => ([], st)
            else if n == "Required" then
              match ps.head? with
              | some p => let (inner, st) := resolveElements fuel st p; (inner.map (setOptional false), st)
              | none => ([], st)
            else if n == "Pick" then
              match ps with
              | objT :: keysT :: _ =>
                let (keys, st) := resolveStrings fuel st keysT
                let (inner, st) := resolveElements fuel st objT
                (inner.filter fun m =>
                  match memberKeyName m with
                  | some (some k) => keys.contains k
                  | _ => false, st)
              | _ => ([], st)
            else if n == "Omit" then
              match ps with
              | objT :: keysT :: _ =>
                let (keys, st) := resolveStrings fuel st keysT
                let (inner, st) := resolveElements fuel st objT
                (inner.filter fun m =>
                  match memberKeyName m with
                  | some (some k) => !keys.contains k
                  | _ => true, st)
              | _ => ([], st)
            else ([], st.err "Error: Unresolvable type reference or unsupported built-in utility type.")
          else ([], st.err "Error: Types from other modules can't be resolved.")
    | .mk .tsIndexed _ [objT, idxT] =>
      match resolveIndexed fuel st objT idxT with
      | (some t, st) => resolveElements fuel st t
      | (none, st) => ([], st.err unresolvable)
    | .mk .tsFnType _ [params, tparams, ann] => ([.mk .tsCallSig [] [params, ann, tparams]], st)
    | .mk .tsParen _ [t] => resolveElements fuel st t
    | .mk .tsOptional _ [t] => resolveElements fuel st t
    | _ => ([], st.err unresolvable)
end

def memberRuntime (members : List Node) : List RT :=
  members.foldl (fun acc m =>
    match m with
    | .mk .tsCallSig _ _ => rtInsert (some "Function") acc
    | .mk .tsCtorSig _ _ => rtInsert (some "Function") acc
    | _ => rtInsert (some "Object") acc) []

/-- an object-like type never yields an empty list (`type: []` would make Vue reject every value) -/
def orObject (ts : List RT) : List RT := if ts.isEmpty then [some "Object"] else ts

/-- `infer_runtime_type` -/
def inferRuntime (fuel : Nat) (st : St) (ty : Node) : List RT × St :=
  match fuel with
  | 0 => ([], giveUp st)
  | fuel + 1 =>
    match enterRes fuel st with
    | none => ([], st)
    | some st =>
    match ty with
    | .mk .tsKeyword [k] _ =>
      (if k == "string" then [some "String"] else if k == "number" then [some "Number"]
       else if k == "boolean" then [some "Boolean"] else if k == "object" then [some "Object"]
       else if k == "null" then [none] else if k == "bigint" then [some "BigInt"]
       else if k == "symbol" then [some "Symbol"]
       else if k == "any" || k == "unknown" then [some ANY_TYPE] else [none], st)
    | .mk .tsTypeLit _ [.mk .list _ members] => (orObject (memberRuntime members), st)
    | .mk .tsFnType _ _ => ([some "Function"], st)
    | .mk .tsCtorType _ _ => ([some "Function"], st)
    | .mk .tsArray _ _ => ([some "Array"], st)
    | .mk .tsTuple _ _ => ([some "Array"], st)
    | .mk .tsLitType _ [lit] =>
      match lit with
      | .mk .str _ _ => ([some "String"], st)
      | .mk .tsTplLit _ _ => ([some "String"], st)
      | .mk .bool _ _ => ([some "Boolean"], st)
      | _ => ([some "Number"], st)
    | .mk .tsTypeRef _ [.mk .ident (n :: b :: _) _, tparams] =>
      match lookupReg st.typeAliases (n, b) with
      | some aliased => inferRuntime fuel st aliased
      | none =>
        match lookupReg st.interfaces (n, b) with
        | some (.mk .tsIface _ [_, _, .mk .list _ extends_, .mk .tsIfaceBody _ [.mk .list _ members]]) =>
          let (ts, st) := extends_.foldl (fun (acc : List RT × St) parent =>
            match parent with
            | .mk .tsExprWithTypeArgs _ [.mk .ident ias _, targs] =>
              let (more, st) := inferRuntime fuel acc.2 (.mk .tsTypeRef [] [.mk .ident ias [], targs])
              (rtExtend acc.1 more, st)
            | _ => (rtInsert (some "Object") acc.1, acc.2)) (memberRuntime members, st)
          (orObject ts, st)
        | some _ => ([], st)
        | none =>
          let ps := typeParamsList tparams
          if ["Array", "Function", "Object", "Set", "Map", "WeakSet", "WeakMap", "Date", "Promise", "Error", "RegExp"].contains n
          then ([some n], st)
          else if ["Partial", "Required", "Readonly", "Record", "Pick", "Omit", "InstanceType"].contains n
          then ([some "Object"], st)
          else if ["Uppercase", "Lowercase", "Capitalize", "Uncapitalize"].contains n then ([some "String"], st)
          else if ["Parameters", "ConstructorParameters"].contains n then ([some "Array"], st)
          else if n == "NonNullable" then
            match ps.head? with
            | some p => let (ts, st) := inferRuntime fuel st p; (ts.filter (·.isSome), st)
            | none => ([some "Object"], st)
          else if n == "Exclude" || n == "OmitThisParameter" then
            match ps.head? with
            | some p => inferRuntime fuel st p
            | none => ([some "Object"], st)
          else if n == "Extract" then
            match ps[1]? with
            | some p => inferRuntime fuel st p
            | none => ([some "Object"], st)
          else ([some "Object"], st)
    | .mk .tsParen _ [t] => inferRuntime fuel st t
    | .mk .tsOptional _ [t] => inferRuntime fuel st t
    | .mk .tsUnion _ [.mk .list _ types] =>
      types.foldl (fun (acc : List RT × St) t =>
        let (more, st) := inferRuntime fuel acc.2 t; (rtExtend acc.1 more, st)) ([], st)
    | .mk .tsIntersection _ [.mk .list _ types] =>
      types.foldl (fun (acc : List RT × St) t =>
        let (more, st) := inferRuntime fuel acc.2 t; (rtExtend acc.1 more, st)) ([], st)
    | .mk .tsIndexed _ [objT, idxT] =>
      -- an access that can't be followed: no runtime check, rather than `type: []` which no value passes
      let orAny (r : List RT × St) : List RT × St := if r.1.isEmpty then ([some ANY_TYPE], r.2) else r
      match resolveIndexed fuel st objT idxT with
      | (some t, st) => orAny (inferRuntime fuel st t)
      | (none, st) => ([some ANY_TYPE], st)
    -- a rest element of an indexed tuple: `[A, ...B[]][1]` is `B`
    | .mk (.other "TsRestType") _ [.mk .tsArray _ [elem]] => inferRuntime fuel st elem
    | .mk (.other "TsRestType") _ _ => ([some ANY_TYPE], st)
    | _ => ([some "Object"], st)

/-! ### props object -/

structure PropIr where
  key : Node
  types : List RT
  required : Bool
  deriving Inhabited

/-- `extract_prop_name(expr, computed)` -/
def extractPropName (key : Node) (computed : Bool) (st : St) : Node × St :=
  match key with
  | .mk .ident (n :: r) ks => if computed then (nComputed (.mk .ident (n :: r) ks), st) else (nIdentName n, st)
  | .mk .str as ks => (.mk .str as ks, st)
  | .mk .num as ks => (.mk .num as ks, st)
  | .mk .bigint as ks => (.mk .bigint as ks, st)
  | k => if computed then (nComputed k, st) else (nIdentName "", st.err "Error: Unsupported prop key.")

def irUpdate (irs : List PropIr) (key : Node) (f : PropIr → PropIr) (fresh : PropIr) : List PropIr :=
  if irs.any (fun ir => ir.key == key) then
    -- only the FIRST entry with an equal key is updated (`iter_mut().find`)
    let rec go : List PropIr → List PropIr
      | [] => []
      | ir :: rest => if ir.key == key then f ir :: rest else ir :: go rest
    go irs
  else irs ++ [fresh]

def rtExpr (t : RT) : Node :=
  match t with
  | some n => nQuoteIdent n
  | none => nNull

/-- does the default entry named `dname` belong to the prop named `pname`? -/
def defaultMatches (dname pname : Node) : Bool :=
  dname == pname ||
    match dname, pname with
    | .mk .ident (a :: _) _, .mk .str (b :: _) _ => a == b
    | .mk .str (a :: _) _, .mk .ident (b :: _) _ => a == b
    | _, _ => false

/-- the `default` written for a matched entry: Vue doesn't call the default of a `Function` prop as a factory, so
    there a factory is undone (an expression body is the value; a getter's block is called in place) -/
def finalDefault (isFunctionProp : Bool) (dflt : Node) (isFactory : Bool) : Node :=
  match dflt with
  | .mk .arrow _ [_, body, _, _] =>
    if isFactory && isFunctionProp then (match body with | .mk .block _ _ => nCall dflt [] | v => v) else dflt
  | d => d

/-- the list written into `type:` — `any` / `unknown` anywhere means no check at all (`type: null`) -/
def emittedTypes (types : List RT) : List RT := if types.contains (some ANY_TYPE) then [none] else types

/-- one resolved member folded into the prop table (`build_props_type`, first half) -/
def propStep (acc : List PropIr × St) (m : Node) : List PropIr × St :=
  let (irs, st) := acc
  match m with
  | .mk .tsPropSig [_, comp, opt] [key, ann] =>
    let (pname, st) := extractPropName key (comp == "true") st
    let (types, st) :=
      match typeAnnInner ann with
      | some t => inferRuntime FUEL st t
      | none => ([some ANY_TYPE], st)          -- no annotation: implicitly `any`
    let optional := opt == "true"
    (irUpdate irs pname
      (fun ir => { ir with required := if optional then false else ir.required, types := rtExtend ir.types types })
      { key := pname, types := types, required := !optional }, st)
  | .mk .tsGetterSig [comp] [key, ann] =>
    let (pname, st) := extractPropName key (comp == "true") st
    let (types, st) :=
      match typeAnnInner ann with
      | some t => inferRuntime FUEL st t
      | none => ([some ANY_TYPE], st)
    (irUpdate irs pname (fun ir => { ir with types := rtExtend ir.types types })
      { key := pname, types := types, required := true }, st)
  | .mk .tsMethodSig [comp, opt] (key :: _) =>
    let (pname, st) := extractPropName key (comp == "true") st
    let optional := opt == "true"
    (irUpdate irs pname
      (fun ir => { ir with required := if optional then false else ir.required,
                           types := rtInsert (some "Function") ir.types })
      { key := pname, types := [some "Function"], required := !optional }, st)
  | _ => (irs, st)

/-- the `type:` expression: a single constructor (or `null`) as such, several as an array -/
def typeExprOf (types : List RT) : Node :=
  match types with
  | [t] => rtExpr t
  | ts => nArray (ts.map fun t => nArg (rtExpr t))

/-- `is_function_prop`: the emitted `type` is exactly `Function` (the only case in which Vue does not call a function default) -/
def isExactlyFunction (types : List RT) : Bool := types == [some "Function"]

/-- one entry of the emitted props object (`build_props_type`, second half) -/
def emitProp (defaults : Option (List (Node × Node × Bool))) (ir : PropIr) : Node :=
  let types := emittedTypes ir.types
  let isFunctionProp := isExactlyFunction types
  let tyExpr := typeExprOf types
  let inner := [nKV (nIdentName "type") tyExpr, nKV (nIdentName "required") (nBool ir.required)]
  let inner :=
    match defaults with
    | some ds =>
      match ds.find? (fun d => defaultMatches d.1 ir.key) with
      | some (_, dflt, isFactory) => inner ++ [nKV (nIdentName "default") (finalDefault isFunctionProp dflt isFactory)]
      | none => inner
    | none => inner
  nKV ir.key (nObject inner)

/-- `build_props_type(type_ann, defaults)`; `ty` is the annotated type -/
def buildPropsType (st : St) (ty : Node) (defaults : Option (List (Node × Node × Bool))) : Node × St :=
  let (elems, st) := resolveElements FUEL st ty
  let (irs, st) := elems.foldl propStep ([], st)
  (nObject (irs.map (emitProp defaults)), st)

/-! ### defaults -/

def isLit : Node → Bool
  | .mk .str _ _ => true
  | .mk .num _ _ => true
  | .mk .bool _ _ => true
  | .mk .null _ _ => true
  | .mk .bigint _ _ => true
  | .mk .regex _ _ => true
  | .mk .jsxText _ _ => true
  | _ => false

/-- `try_unwrap_lit_prop_name` -/
def tryUnwrapLitPropName (key : Node) : Option Node :=
  match key with
  | .mk .ident _ _ => some key
  | .mk .str _ _ => some key
  | .mk .num _ _ => some key
  | .mk .bigint _ _ => some key
  | .mk .computed _ [e] =>
    match e with
    | .mk .str _ _ => some e          -- `[name]: v` with an identifier is a dynamic key
    | .mk .num _ _ => some e
    | .mk .bigint _ _ => some e
    | _ => none
  | _ => none

/-- one property of the defaults object literal → (key, default expression, is-a-factory-around-the-value),
    or `none` if not static -/
def staticDefault (p : Node) : Option (Node × Node × Bool) :=
  match p with
  | .mk .ident (n :: b :: _) _ => some (nIdentName n, nArrow [] (nIdent n b), true)          -- shorthand
  | .mk .kv _ [key, value] =>
    (tryUnwrapLitPropName key).map fun k => (k, (if isLit value then value else nArrow [] value), !isLit value)
  | .mk .getterProp _ [key, _, body] =>
    match body with
    | .mk .block _ _ => (tryUnwrapLitPropName key).map fun k => (k, nArrow [] body, true)
    | _ => none
  | .mk .methodProp as (key :: fnKids) =>
    (tryUnwrapLitPropName key).map fun k => (k, .mk .fnExpr as (nNone :: fnKids), false)
  | _ => none

def allStatic : List Node → Option (List (Node × Node × Bool))
  | [] => some []
  | p :: rest =>
    match staticDefault p, allStatic rest with
    | some d, some ds => some (d :: ds)
    | _, _ => none

/-- type annotation carried by a pattern (`extract_type_ann_from_pat`) -/
def patTypeAnn (fuel : Nat) (pat : Node) : Option Node :=
  match fuel with
  | 0 => none
  | fuel + 1 =>
    match pat with
    | .mk .ident _ [ann] => typeAnnInner ann
    | .mk .objectPat _ [_, ann] => typeAnnInner ann
    | .mk .arrayPat _ [_, ann] => typeAnnInner ann
    | .mk .assignPat _ [left, _] => patTypeAnn fuel left
    | _ => none

/-- the parameter patterns of the setup function (arrow or function expression) -/
def setupParams (arg : Node) : Option (List Node) :=
  match arg with
  | .mk .arg _ [.mk .arrow _ (.mk .list _ params :: _)] => some params
  | .mk .arg _ [.mk .fnExpr _ (_ :: .mk .list _ params :: _)] =>
    some (params.map fun p => match p with | .mk .param _ [_, pat] => pat | p => p)
  | _ => none

/-- `extract_props_type` -/
def extractPropsType (env : Env) (setupArg : Node) (st : St) : Option Node × St :=
  match (setupParams setupArg).bind (·.head?) with
  | none => (none, st)
  | some pat =>
    let defaults : Option Node := match pat with | .mk .assignPat _ [_, r] => some r | _ => none
    match patTypeAnn 64 pat with
    | none => (none, st)
    | some ty =>
      let staticDs : Option (Option (List (Node × Node × Bool))) :=     -- none: no defaults; some none: dynamic
        defaults.map fun d =>
          match d with
          | .mk .object _ [.mk .list _ props] => allStatic props
          | _ => none
      match defaults, staticDs with
      | some _, some (some ds) =>
        let (obj, st) := buildPropsType st ty (some ds)
        (some obj, st)
      | some d, _ =>
        let (md, st) := st.importFromVue "mergeDefaults"
        let (obj, st) := buildPropsType st ty none
        -- with a comments store the call carries a non-dummy span (for the PURE annotation)
        (some (.mk .call [if env.hasComments then "usr" else "syn"] [md, nList [nArg obj, nArg d], nNone]), st)
      | none, _ =>
        let (obj, st) := buildPropsType st ty none
        (some obj, st)

/-- the event names one resolved member of `E` contributes -/
def emitStep (acc : List String × St) (m : Node) : List String × St :=
  match m with
  | .mk .tsCallSig _ (.mk .list _ params :: _) =>
    let pann : Option Node :=
      match params.head? with
      | some (.mk .ident _ [a]) => typeAnnInner a
      | some (.mk .arrayPat _ [_, a]) => typeAnnInner a
      | some (.mk .restPat _ [_, a]) => typeAnnInner a
      | some (.mk .objectPat _ [_, a]) => typeAnnInner a
      | _ => none
    match pann with
    | some t => let (ns, st) := resolveStrings FUEL acc.2 t; (acc.1 ++ ns, st)
    | none => acc
  | .mk .tsGetterSig _ _ => acc
  | m =>
    match memberKeyName m with
    | some (some k) => (acc.1 ++ [k], acc.2)
    | _ => acc

/-- `extract_emits_type` -/
def extractEmitsType (setupArg : Node) (st : St) : Option Node × St :=
  let second : Option Node := (setupParams setupArg).bind (·[1]?)
  let ann : Option Node :=
    match second with
    | some (.mk .ident _ [a]) => typeAnnInner a
    | some (.mk .arrayPat _ [_, a]) => typeAnnInner a
    | some (.mk .objectPat _ [_, a]) => typeAnnInner a
    | _ => none
  match ann with
  | some (.mk .tsTypeRef _ [.mk .ident (n :: _) _, .mk .tsTypeParamInst _ [.mk .list _ ps]]) =>
    if n != "SetupContext" then (none, st) else
    match ps.head? with
    | none => (none, st)
    | some emitsDef =>
      let (elems, st) := resolveElements FUEL st emitsDef
      let (names, st) := elems.foldl emitStep ([], st)
      (some (nArray (names.map fun n => nArg (nStr n))), st)
  | _ => (none, st)

/-! ### the `defineComponent` hooks -/

/-- `is_define_component_call` -/
def isDefineComponentCall (st : St) (call : Node) : Bool :=
  match call with
  | .mk .call _ (.mk .ident (n :: b :: _) _ :: _) =>
    match st.defineComponent with
    | some ctxt => ctxt == b && n == "defineComponent"
    | none => false
  | _ => false

/-- `is_option_named(prop, name)`: does this entry define the option, however it is spelled? -/
def isOptionNamed (p : Node) (name : String) : Bool :=
  let keyIs (k : Node) : Bool :=
    match k with
    | .mk .ident (n :: _) _ => n == name
    | .mk .str (v :: _) _ => v == name
    | .mk .computed _ [.mk .str (v :: _) _] => v == name
    -- [`name`]: a template literal without substitutions
    | .mk .computed _ [.mk .tsTplLit _ [.mk .list _ [], .mk .list _ [.mk (.other "TemplateElement") (_ :: cooked :: _) _]]] => cooked == name
    | _ => false
  match p with
  | .mk .ident (n :: _) _ => n == name                       -- shorthand
  | .mk .kv _ (k :: _) => keyIs k
  | .mk .getterProp _ (k :: _) => keyIs k
  | .mk .methodProp _ (k :: _) => keyIs k
  | _ => false

/-- `may_define_any_option`: a spread, or an entry whose key is computed from something other than a literal -/
def isSpreadProp : Node → Bool
  | .mk .spreadElement _ _ => true
  | .mk .kv _ (k :: _) => dynKey k
  | .mk .getterProp _ (k :: _) => dynKey k
  | .mk .setterProp _ (k :: _) => dynKey k
  | .mk .methodProp _ (k :: _) => dynKey k
  | _ => false
where
  dynKey (k : Node) : Bool :=
    match k with
    | .mk .computed _ [e] =>
      if isLit e then false else
      match e with
      | .mk .tsTplLit _ (.mk .list _ exprs :: _) => !exprs.isEmpty
      | _ => true
    | _ => false

/-- insert before the first spread (or entry with a key computed at run time), or append when there is none -/
def insertBeforeFirstSpread (props : List Node) (entry : Node) : List Node :=
  match props with
  | [] => [entry]
  | p :: rest => if isSpreadProp p then entry :: p :: rest else p :: insertBeforeFirstSpread rest entry

/-- `can_inject_define_component_option(call, name)` -/
def canInjectOption (call : Node) (name : String) : Bool :=
  match call with
  | .mk .call _ [_, .mk .list _ args, _] =>
    let isSpreadArg (a : Node) : Bool := match a with | .mk .spreadArg _ _ => true | _ => false
    if args.isEmpty || (args.take 2).any isSpreadArg then false else
    match (args[1]? : Option Node) with
    | some (.mk .arg _ [.mk .object _ [.mk .list _ props]]) => !props.any (isOptionNamed · name)
    | _ => true
  | _ => false

/-- `inject_define_component_option(call, name, value)` -/
def injectOption (call : Node) (name : String) (value : Node) : Node :=
  if !canInjectOption call name then call else
  match call with
  | .mk .call as [callee, .mk .list las args, ta] =>
    let entry := nKV (nIdentName name) value
    match (args[1]? : Option Node) with
    | some (.mk .arg _ [.mk .object oas [.mk .list pas props]]) =>
      .mk .call as [callee, .mk .list las (args.take 1 ++ [nArg (.mk .object oas [.mk .list pas (insertBeforeFirstSpread props entry)])] ++ args.drop 2), ta]
    | some (.mk .arg _ [e]) =>
      .mk .call as [callee, .mk .list las (args.take 1 ++ [nArg (nObject [entry, nSpreadElement e])] ++ args.drop 2), ta]
    | some _ => call
    | none => .mk .call as [callee, .mk .list las (args ++ [nArg (nObject [entry])]), ta]
  | c => c

/-- `visit_mut_call_expr` after its children -/
def callHook (o : Opts) (env : Env) (call : Node) (st : St) : Node × St :=
  if !o.resolveType then (call, st) else
  if !isDefineComponentCall st call then (call, st) else
  match call with
  | .mk .call _ [_, .mk .list _ (first :: _), _] =>
    let (props, st) := if canInjectOption call "props" then extractPropsType env first st else (none, st)
    let (emits, st) := if canInjectOption call "emits" then extractEmitsType first st else (none, st)
    let call := match props with | some p => injectOption call "props" p | none => call
    let call := match emits with | some e => injectOption call "emits" e | none => call
    (call, st)
  | _ => (call, st)

/-- `visit_mut_var_declarator` after its children -/
def declaratorHook (o : Opts) (d : Node) (st : St) : Node × St :=
  if !o.resolveType then (d, st) else
  match d with
  | .mk .declarator das [.mk .ident (n :: ir) iks, .mk .call cas cks] =>
    if isDefineComponentCall st (.mk .call cas cks) then
      (.mk .declarator das [.mk .ident (n :: ir) iks, injectOption (.mk .call cas cks) "name" (nStr n)], st)
    else (d, st)
  | d => (d, st)

mutual
def allNodes : Node → List Node
  | .mk k as ks => .mk k as ks :: allNodesL ks
def allNodesL : List Node → List Node
  | [] => []
  | n :: ns => allNodes n ++ allNodesL ns
end

/-- `TypeDeclCollector::visit_ts_interface_decl` -/
def ifaceHook (n : Node) (st : St) : St :=
  match n with
  | .mk .tsIface as [id, tp, .mk .list eas ext, .mk .tsIfaceBody bas [.mk .list las members]] =>
    let key := (identName id, identBind id)
    match lookupReg st.interfaces key with
    | some (.mk .tsIface as0 [id0, tp0, .mk .list eas0 ext0, .mk .tsIfaceBody bas0 [.mk .list las0 members0]]) =>
      let merged := Node.mk .tsIface as0 [id0, tp0, .mk .list eas0 (ext0 ++ ext), .mk .tsIfaceBody bas0 [.mk .list las0 (members0 ++ members)]]
      { st with interfaces := st.interfaces.map fun p => if p.1 == key then (p.1, merged) else p }
    | some _ => st
    | none => { st with interfaces := st.interfaces ++ [(key, .mk .tsIface as [id, tp, .mk .list eas ext, .mk .tsIfaceBody bas [.mk .list las members]])] }
  | _ => st

/-- `TypeDeclCollector::visit_ts_type_alias_decl` -/
def aliasHook (n : Node) (st : St) : St :=
  match n with
  | .mk .tsAlias _ [id, _, ty] =>
    let key := (identName id, identBind id)
    if (lookupReg st.typeAliases key).isSome then
      { st with typeAliases := st.typeAliases.map fun p => if p.1 == key then (p.1, ty) else p }
    else { st with typeAliases := st.typeAliases ++ [(key, ty)] }
  | _ => st

/-- the up-front collection of every interface and type alias of the module, in any scope (`TypeDeclCollector`) -/
def collectTypes (m : Node) (st : St) : St :=
  (allNodes m).foldl (fun st d =>
    match d with
    | .mk .tsIface _ _ => ifaceHook d st
    | .mk .tsAlias _ _ => aliasHook d st
    | _ => st) st

end VueJsx
